(* C31 driver.  case: "<t0> <results> <ops> [<durations>]" (see harness/h_c31.cpp); impl result: the token trace.
   The model is run on the same script; its tie-breaking oracle is steered by the order in which the
   implementation ran the callbacks.  The oracle c31_ok is applied to the history rebuilt from the
   implementation's tokens (event id = callback number = index of the schedule call). *)
let parse_ops (s : string) : sop list =
  List.filter_map (fun o ->
    if o = "" then None
    else match o.[0] with
    | 'S' -> (match split_on ':' (String.sub o 1 (String.length o - 1)) with
              | [r; ms] -> Some (SSched (r = "1", z_of_string ms))
              | _ -> failwith "bad S")
    | 'A' -> Some (SAdv (z_of_string (String.sub o 1 (String.length o - 1))))
    | 'C' -> Some SClear
    | 'W' -> (match split_on ':' (String.sub o 1 (String.length o - 1)) with
              | [_k; d] -> Some (SPark (z_of_string d, O))      (* nf is filled in from the implementation's trace *)
              | _ -> failwith "bad W")
    | _ -> failwith "bad op") (split_on ',' s)

let parse_res (s : string) : string array =
  if s = "-" then [||] else Array.of_list (List.map (fun x -> if x = "-" then "" else x) (split_on ',' s))

let tok_of (e : hentry) : string =
  match e with
  | HSched _ -> "s1"
  | HFire (_, cb, t, r) -> "f" ^ string_of_z cb ^ "@" ^ string_of_z t ^ ":" ^ b01 r
  | HClear (_, n) -> "c" ^ string_of_int (int_of_nat n)
  | HQuiet _ -> "q"

(* callback to be parked, per op (-1: not a W op) *)
let park_cbs (s : string) : int list =
  List.filter_map (fun o ->
    if o = "" then None
    else if o.[0] = 'W' then Some (int_of_string (List.hd (split_on ':' (String.sub o 1 (String.length o - 1)))))
    else Some (-1)) (split_on ',' s)

(* the model's history as tokens; every op of the script ends with one HQuiet.  For a W op the token
   w0 ("clear() had not returned while the callback was kept from returning": in the model the pass of the
   loop is one atomic step, so it cannot have) is put in front when callback k ran before the clear *)
let show_hist (parks : int list) (h : hentry list) : string =
  let rec segs acc cur = function
    | [] -> List.rev (if cur = [] then acc else List.rev cur :: acc)
    | (HQuiet _ as e) :: t -> segs (List.rev (e :: cur) :: acc) [] t
    | e :: t -> segs acc (e :: cur) t in
  let ss = segs [] [] h in
  let rec go ss ps = match ss, ps with
    | [], _ -> []
    | sg :: st, p :: pt ->
        let rec before_clear = function
          | [] -> false
          | HClear _ :: _ -> false
          | HFire (_, cb, _, _) :: t -> int_of_z cb = p || before_clear t
          | _ :: t -> before_clear t in
        let toks = List.map tok_of sg in
        (if p >= 0 && before_clear sg then "w0" :: toks else toks) :: go st pt
    | sg :: st, [] -> List.map tok_of sg :: go st [] in
  String.concat " " (List.concat (go ss parks))

(* implementation tokens -> history, tie preferences, script with the nf of every W op filled in;
   None when the trace is not of the expected shape *)
let impl_hist (dur : z -> z) (t0 : z) (sc : sop list) (impl : string) : (hentry list * z list * sop list) option =
  let toks = ref (words impl) in
  let next () = match !toks with [] -> None | x :: r -> toks := r; Some x in
  let peek () = match !toks with [] -> None | x :: _ -> Some x in
  let h = ref [] and pref = ref [] and now = ref t0 and k = ref 0 and ok = ref true and sc' = ref [] in
  let fire f =
    (try
      let at = String.index f '@' and col = String.index f ':' in
      let cb = int_of_string (String.sub f 1 (at - 1)) in
      let t = z_of_string (String.sub f (at + 1) (col - at - 1)) in
      let r = String.sub f (col + 1) (String.length f - col - 1) = "1" in
      h := HFire (nat_of_int cb, z_of_int cb, t, r) :: !h;
      pref := z_of_int cb :: !pref;
      now := Z.add !now (dur (z_of_int cb))          (* the callback took that long *)
    with _ -> ok := false) in
  let clear c = h := HClear (!now, nat_of_int (int_of_string (String.sub c 1 (String.length c - 1)))) :: !h in
  let is_f f = String.length f > 1 && f.[0] = 'f' and is_c c = String.length c > 1 && c.[0] = 'c' in
  List.iter (fun o ->
    if !ok then begin
      let o' = ref o in
      (match o with
       | SSched (rep, ms) ->
           (match next () with
            | Some "s1" -> h := HSched (nat_of_int !k, z_of_int !k, rep, ms, !now) :: !h; incr k
            | _ -> ok := false)
       | SAdv d -> now := Z.add !now d
       | SClear ->
           (match next () with
            | Some c when is_c c -> clear c
            | _ -> ok := false)
       | SPark (d, _) ->
           now := Z.add !now d;
           (match peek () with Some ("w0" | "w1") -> ignore (next ()) | _ -> ());
           let nf = ref 0 and seen = ref false in
           while !ok && not !seen do
             match next () with
             | Some f when is_f f -> fire f; incr nf
             | Some c when is_c c -> clear c; seen := true
             | _ -> ok := false
           done;
           o' := SPark (d, nat_of_int !nf));
      sc' := !o' :: !sc';
      let continue = ref !ok in
      while !continue do
        match peek () with
        | Some f when is_f f -> ignore (next ()); fire f; if not !ok then continue := false
        | _ -> continue := false
      done;
      if !ok then (match next () with
        | Some "q" -> h := HQuiet !now :: !h
        | _ -> ok := false)
    end) sc;
  if !ok && !toks = [] then Some (List.rev !h, List.rev !pref, List.rev !sc') else None

let () = run_protocol (fun case impl ->
  let ws = (match words case with [a; b; c] -> [a; b; c; "-"] | l -> l) in
  match ws with
  | [t0; rs; ops; durs] ->
    let durv = if durs = "-" then [||] else Array.of_list (List.map z_of_string (split_on ',' durs)) in
    let dur (cb : z) : z = let c = int_of_z cb in if c >= 0 && c < Array.length durv then durv.(c) else z_of_int 0 in
    let nT = Array.fold_left (fun a s -> a + String.length s) 0 (parse_res rs) in
    let t0 = z_of_string t0 and resv = parse_res rs and sc = parse_ops ops and parks = park_cbs ops in
    let res (cb : z) (n : nat) : bool =
      let c = int_of_z cb and n = int_of_nat n in
      c >= 0 && c < Array.length resv && n < String.length resv.(c) && resv.(c).[n] = 'T' in
    let ih = (try impl_hist dur t0 sc impl with _ -> None) in
    let pref = (match ih with Some (_, p, _) -> p | None -> []) in
    let sc = (match ih with Some (_, _, sc') -> sc' | None -> sc) in
    let (((s, _), _), fin) = run_script res dur (nat_of_int (nT + 4)) t0 pref sc in
    let ms = (let t = show_hist parks (hist s) in (if t = "" then "-" else t) ^ (if fin then "" else " FUEL")) in
    let om = fin && c31_ok (hist s) in
    (* a clear() that returned while the callback was parked (w1) is a failure by itself: the call overlapped the callback *)
    let w1 = List.mem "w1" (words impl) in
    let oi = (match ih with Some (h, _, _) -> c31_ok h && not w1 | None -> false) in
    (ms, oi, om)
  | _ -> ("BAD-CASE", false, false))
