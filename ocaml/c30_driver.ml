(* C30 driver.  cases (see harness/h_c30.cpp):
     q <nq> <slotsize> <progs> <sched> | w <progs> <sched> | v <progs> <sched>
     s <slotsize> <ops> | f <np> <nc> <ops> <nq> | b <w|q> <nq> <seg> <np> <N>
     l <seg> <N> <cmds> | L <w|q> <nq> <seg> <N> <cmds>   (summary lines, judged by backlog_ok)
   result: the trace as tokens; the oracle is applied to the parsed tokens of the implementation *)
let fuel = 400

let parse_progs (s : string) : op list list =
  List.map (fun p ->
    if p = "-" || p = "" then []
    else List.filter_map (fun o ->
      if o = "" then None
      else if o.[0] = 'p' then Some (Push (nat_of_int (int_of_string (String.sub o 1 (String.length o - 1)))))
      else Some Pop) (split_on ',' p)) (split_on '/' s)

let parse_sched (s : string) : nat list =
  if s = "-" then [] else List.init (String.length s) (fun i -> nat_of_int (hexval s.[i]))

let si k = string_of_int (int_of_nat k)
let tok_of_ev (e : ev) : string =
  match e with
  | ERd (t, v) -> si t ^ "r" ^ si v
  | EWr (t, v) -> si t ^ "w" ^ si v
  | ECas (t, c, ok) -> si t ^ "x" ^ si c ^ ":" ^ b01 ok
  | ESlPush (t, v) -> si t ^ "u" ^ si v
  | ESlPop (t, Some v) -> si t ^ "o" ^ si v
  | ESlPop (t, None) -> si t ^ "o!"
  | EWinP (t, k, v) -> si t ^ "P" ^ si k ^ "=" ^ si v
  | EDoneP (t, k, v) -> si t ^ "+" ^ si k ^ ":" ^ si v
  | EWinC (t, k) -> si t ^ "C" ^ si k
  | EDoneC (t, k, d) -> si t ^ "-" ^ si k ^ ":" ^ si d
  | EEmptyC (t, k) -> si t ^ "e" ^ si k
let string_of_trace (tr : ev list) : string =
  if tr = [] then "-" else String.concat " " (List.map tok_of_ev tr)

(* "<t><kind><rest>" ; fails on anything else *)
let ev_of_tok (s : string) : ev =
  let n = String.length s in
  let i = ref 0 in
  while !i < n && s.[!i] >= '0' && s.[!i] <= '9' do incr i done;
  if !i = 0 || !i >= n then failwith "tok";
  let t = nat_of_int (int_of_string (String.sub s 0 !i)) in
  let kind = s.[!i] in
  let rest = String.sub s (!i + 1) (n - !i - 1) in
  let num x = let k = int_of_string x in if k < 0 || k > 1000000 then failwith "range" else nat_of_int k in
  match kind with
  | 'r' -> ERd (t, num rest)
  | 'w' -> EWr (t, num rest)
  | 'x' -> (match split_on ':' rest with
            | [c; "1"] -> ECas (t, num c, true) | [c; "0"] -> ECas (t, num c, false) | _ -> failwith "cas")
  | 'u' -> ESlPush (t, num rest)
  | 'o' -> if rest = "!" then ESlPop (t, None) else ESlPop (t, Some (num rest))
  | 'P' -> (match split_on '=' rest with [k; v] -> EWinP (t, num k, num v) | _ -> failwith "win")
  | '+' -> (match split_on ':' rest with [k; v] -> EDoneP (t, num k, num v) | _ -> failwith "done")
  | 'C' -> EWinC (t, num rest)
  | '-' -> (match split_on ':' rest with [k; v] -> EDoneC (t, num k, num v) | _ -> failwith "done")
  | 'e' -> EEmptyC (t, num rest)
  | _ -> failwith "kind"
let trace_of_string (s : string) : ev list option =
  if s = "-" then Some []
  else try Some (List.map ev_of_tok (words s)) with _ -> None

let sched_case nq progs sched impl =
  let progs = parse_progs progs and sched = parse_sched sched in
  let tr = exec nq progs sched (nat_of_int fuel) in
  let all = all_progs progs in
  let om = c30_ok all tr && c30_final_ok all tr in
  let oi = (match trace_of_string impl with Some ti -> c30_ok all ti && c30_final_ok all ti | None -> false) in
  (string_of_trace tr, oi, om)

let slot_ops (s : string) : op list =
  let next = ref 0 in
  let s = if s = "-" then "" else s in
  List.init (String.length s) (fun i -> i) |>
  List.map (fun i -> if s.[i] = 'p' then (incr next; Push (nat_of_int !next)) else Pop)

let () = run_protocol (fun case impl ->
  match words case with
  | ["q"; nq; _; progs; sched] -> sched_case (nat_of_int (int_of_string nq)) progs sched impl
  | ["w"; progs; sched] | ["v"; progs; sched] -> sched_case default_nq progs sched impl
  | ["s"; _; ops] ->
    let ops = slot_ops ops in
    let r = slot_run ops [] in
    let oi = (match trace_of_string impl with Some ti -> slot_ok ops ti | None -> false) in
    (string_of_trace r, oi, slot_ok ops r)
  | "f" :: np :: _ :: ops :: _ ->
    let np = int_of_string np and ops = int_of_string ops in
    let n = np * ops in
    let expected = Printf.sprintf "FREE total=%d dup=0 lost=0 ord=0 sum=%d" n (n * (n + 1) / 2) in
    let oi = (try Scanf.sscanf impl "FREE total=%d dup=%d lost=%d ord=%d sum=%d" (fun t d l o s ->
                free_ok (n_of_int np) (n_of_int ops) (n_of_int t) (n_of_int d) (n_of_int l) (n_of_int o) (n_of_int s))
              with _ -> false) in
    (expected, oi, true)
  | ["b"; _; _; _; _; n] | ["l"; _; n; _] | ["L"; _; _; _; n; _] ->
    (* large backlog: digest only — the extracted interleaving model (unary tickets) is not run;
       the expected line is what a queue that delivers everything in order prints *)
    let n = int_of_string n in
    let expected = Printf.sprintf "BACKLOG pushed=%d popped=%d empty=1 null=0 dup=0 lost=0 ord=0" n n in
    let oi = (try Scanf.sscanf impl "BACKLOG pushed=%d popped=%d empty=%d null=%d dup=%d lost=%d ord=%d"
                (fun a b c d e f g -> backlog_ok (n_of_int n) (n_of_int a) (n_of_int b) (n_of_int c) (n_of_int d)
                                         (n_of_int e) (n_of_int f) (n_of_int g))
              with _ -> false) in
    (expected, oi, true)
  | _ -> ("BAD-CASE", false, false))
