(* ======================================================================================
   CODEC COMMON BLOCK  (copy verbatim into c0X_driver.ml of C01, C03..C06, C11)
   Needs from the extracted model: the Codec types and
     cstr find_be find_msg ftype_of mk_message create_group add_field find_add_group group_add
     real_caps factory msg_encode msg_encode_str render_default
   argv.(1..) = "<schema>=<path of the metadata dump written by `h_codec --meta`>" (see
   coq/Codec/READY.md); a case line may start with "@<schema> " to select a schema other than
   the first.
   ====================================================================================== *)
let bit v k = (v lsr k) land 1 = 1
let mk_trait fnum ftype pos comp flags : trait =
  { t_fnum = n_of_int fnum; t_ftype = n_of_int ftype; t_pos = n_of_int pos; t_comp = n_of_int comp;
    t_mand = bit flags 0; t_present = bit flags 1; t_haspos = bit flags 2; t_group = bit flags 3;
    t_iscomp = bit flags 4; t_suppress = bit flags 5; t_auto = bit flags 6 }

let nlist_of_string s = List.map n_of_int (bytes_of_string s)
let string_of_nlist l = string_of_bytes (List.map int_of_n l)

(* metadata file -> ctx *)
let load_ctx (path : string) (render : n -> n list -> n list) : ctx =
  let ic = open_in path in
  let fields = ref [] and msgs = ref [] and begin_s = ref [] in
  let traits : (string, trait list) Hashtbl.t = Hashtbl.create 64 in
  let groups : (string, (int * string * bool) list) Hashtbl.t = Hashtbl.create 64 in
  let inits : (string, (n * (n * n list)) list) Hashtbl.t = Hashtbl.create 4 in
  let add tbl k v = Hashtbl.replace tbl k ((try Hashtbl.find tbl k with Not_found -> []) @ [v]) in
  (try
    while true do
      let line = input_line ic in
      match words line with
      | ["V"; _; bs; _] -> begin_s := nlist_of_hex bs
      | ["F"; fnum; ftype; _] -> fields := (n_of_int (int_of_string fnum), n_of_int (int_of_string ftype)) :: !fields
      | ["M"; mt; _; admin] -> msgs := (mt, admin = "1") :: !msgs
      | ["T"; owner; fnum; ftype; pos; comp; flags] ->
          add traits owner (mk_trait (int_of_string fnum) (int_of_string ftype) (int_of_string pos)
                              (int_of_string comp) (int_of_string flags))
      | ["G"; owner; fnum; "->"; sub; deep] -> add groups owner (int_of_string fnum, sub, deep = "1")
      | ["I"; owner; pos; fnum; v] ->
          add inits owner (n_of_int (int_of_string pos), (n_of_int (int_of_string fnum), nlist_of_hex v))
      | _ -> ()
    done
  with End_of_file -> close_in ic);
  let rec gm owner : gmeta =
    let ts = (try Hashtbl.find traits owner with Not_found -> []) in
    let gs = (try Hashtbl.find groups owner with Not_found -> []) in
    let deep = List.for_all (fun (_, _, d) -> d) gs in
    if not deep && List.exists (fun (_, _, d) -> d) gs then failwith ("mixed deep flags under " ^ owner);
    GM (ts, List.map (fun (f, sub, _) -> (n_of_int f, gm sub)) gs, deep) in
  let init owner = (try Hashtbl.find inits owner with Not_found -> []) in
  { c_fields = List.rev !fields;
    c_msgs = List.rev_map (fun (mt, admin) -> { md_type = nlist_of_string mt; md_admin = admin; md_meta = gm mt }) !msgs;
    c_header = gm "header"; c_trailer = gm "trailer";
    c_hdr_init = init "header"; c_trl_init = init "trailer";
    c_begin = !begin_s; c_render = render }

(* canonical result vocabulary (identical to harness/h_codec.cpp) *)
let string_of_exc (e : exc) : string =
  match e with
  | EInvalidMessage -> "EXC InvalidMessage"
  | EDuplicateField t -> "EXC DuplicateField " ^ string_of_int (int_of_n t)
  | EUnknownField t -> "EXC UnknownField " ^ string_of_int (int_of_n t)
  | EMissingMandatory t -> "EXC MissingMandatoryField " ^ string_of_int (int_of_n t)
  | EFixedWidth -> "EXC MissingMandatoryField fixedwidth"
  | EValueTooLarge -> "EXC f8Exception ValueTooLarge"
  | EMissingGroupField t -> "EXC MissingRepeatingGroupField " ^ string_of_int (int_of_n t)
  | EInvalidGroup t -> "EXC InvalidRepeatingGroup " ^ string_of_int (int_of_n t)
  | EBadCheckSum v -> "EXC BadCheckSum " ^ string_of_int (int_of_n v)
  | EInvalidField t -> "EXC InvalidField " ^ string_of_int (int_of_n t)
  | EMissingComponent -> "EXC MissingMessageComponent"
let string_of_res (f : 'a -> string) (r : 'a res) : string =
  match r with
  | Ok a -> "OK " ^ f a
  | Exc e -> string_of_exc e
  | OOB s -> "OOB " ^ string_of_int (int_of_n s)
  | Diverge -> "HANG"
  | Fuel -> "MODEL-FUEL"

exception Bad_case of string
exception Model_stop of string        (* a non-Ok model result while building *)
let unres (r : 'a res) : 'a = match r with Ok a -> a | r -> raise (Model_stop (string_of_res (fun _ -> "") r))

(* msgspec parser + construction through the model's API functions, mirroring h_codec.cpp:
   add_field(create_field(fnum, text)); '[' = find_add_group; each '(' ')' = create_group(true) + add *)
let build_msg (c : ctx) (spec : string) : message =
  let parts = Array.of_list (split_on ';' spec) in
  if Array.length parts <> 4 then raise (Bad_case "spec: 4 parts expected");
  let md = (match find_msg c.c_msgs (nlist_of_string parts.(0)) with
            | Some md -> md | None -> raise (Bad_case "spec: unknown msgtype")) in
  let msg = mk_message c md true in
  let fill_part (s : string) (mb0 : mbase) : mbase =
    let i = ref 0 in
    let len = String.length s in
    let peek () = if !i < len then s.[!i] else '\000' in
    let number () =
      let j = !i in
      while (match peek () with '0'..'9' -> true | _ -> false) do incr i done;
      if !i = j then raise (Bad_case "spec: number expected");
      int_of_string (String.sub s j (!i - j)) in
    let hexval () =
      if peek () = '-' then (incr i; [])
      else begin
        let j = !i in
        while (match peek () with '0'..'9' | 'a'..'f' | 'A'..'F' -> true | _ -> false) do incr i done;
        nlist_of_hex (String.sub s j (!i - j))
      end in
    let rec fill (mb : mbase) : mbase =
      if !i < len && peek () <> ')' then begin
        let fnum = n_of_int (number ()) in
        if peek () <> '=' then raise (Bad_case "spec: = expected");
        incr i;
        let v = cstr (hexval ()) in                 (* create_field takes a C string *)
        if find_be c.c_fields fnum = None then raise (Bad_case "spec: no such field");
        let mb1 = unres (add_field mb fnum v) in
        let mb2 =
          if peek () = '[' then begin
            incr i;
            let (m1, g) = unres (find_add_group mb1 fnum) in
            let cur = ref m1 in
            while peek () = '(' do
              incr i;
              let el = fill (create_group g true) in
              if peek () <> ')' then raise (Bad_case "spec: ) expected");
              incr i;
              cur := group_add !cur fnum el
            done;
            if peek () <> ']' then raise (Bad_case "spec: ] expected");
            incr i;
            !cur
          end else mb1 in
        if peek () = ',' then incr i;
        fill mb2
      end else mb in
    fill mb0 in
  let h = fill_part parts.(1) msg.m_hdr in
  let b = fill_part parts.(2) msg.m_body in
  let t = fill_part parts.(3) msg.m_trl in
  { m_type = msg.m_type; m_hdr = h; m_body = b; m_trl = t }

(* canonical dump of an object, same text as dump_mb / dump_msg of h_codec.cpp *)
let rec dump_mb (c : ctx) (b : Buffer.t) (m : mbase) : unit =
  let MB (fp, _, fields, pos, groups, unknown) = m in
  let printed f v =
    let dflt = (match find_trait fp f with Some tr -> tr.t_ftype | None -> n_of_int 15) in
    hex_of_nlist (c.c_render (ftype_of c f dflt) v) in
  let sep first = if !first then first := false else Buffer.add_char b ',' in
  Buffer.add_string b "{p:";
  let first = ref true in
  List.iter (fun (p, (f, v)) -> sep first;
    Buffer.add_string b (Printf.sprintf "%d:%d=%s" (int_of_n p) (int_of_n f) (printed f v))) pos;
  Buffer.add_string b ";f:";
  let first = ref true in
  List.iter (fun (f, v) -> sep first;
    Buffer.add_string b (Printf.sprintf "%d=%s" (int_of_n f) (printed f v))) fields;
  Buffer.add_string b ";g:";
  let first = ref true in
  List.iter (fun (f, els) -> sep first;
    Buffer.add_string b (Printf.sprintf "%d[" (int_of_n f));
    List.iter (dump_mb c b) els;
    Buffer.add_char b ']') groups;
  Buffer.add_string b (";u:" ^ hex_of_nlist unknown ^ ";pr:");
  let first = ref true in
  List.iter (fun tr -> if tr.t_present then (sep first; Buffer.add_string b (string_of_int (int_of_n tr.t_fnum)))) fp;
  Buffer.add_string b ";su:";
  let first = ref true in
  List.iter (fun tr -> if tr.t_suppress then (sep first; Buffer.add_string b (string_of_int (int_of_n tr.t_fnum)))) fp;
  Buffer.add_char b '}'
let dump_msg (c : ctx) (m : message) : string =
  let b = Buffer.create 1024 in
  Buffer.add_string b ("T=" ^ string_of_nlist m.m_type ^ " H");
  dump_mb c b m.m_hdr;
  Buffer.add_string b " B";
  dump_mb c b m.m_body;
  Buffer.add_string b " T";
  dump_mb c b m.m_trl;
  Buffer.contents b

let parse_mode (s : string) : bool * bool =      (* (permissive, no_chksum) *)
  (String.contains s 'p', String.contains s 'n')

(* the operations of h_codec.cpp on the model; result strings in the harness vocabulary.
   [enc_bytes] returns also the raw model results for the oracles. *)
let op_enc (c : ctx) (m : message) : (n list * message) res = msg_encode_str c real_caps m
let op_dec (c : ctx) (mode : string) (bytes : n list) : message res =
  let (perm, nock) = parse_mode mode in factory c real_caps bytes nock perm

let run_op (c : ctx) (case : string) : string =
  try
    match words case with
    | ["ENC"; spec] -> string_of_res (fun (b, _) -> hex_of_nlist b) (op_enc c (build_msg c spec))
    | ["ENC2"; spec] ->
        (match op_enc c (build_msg c spec) with
         | Ok (b1, m1) -> string_of_res (fun (b2, _) -> hex_of_nlist b1 ^ " " ^ hex_of_nlist b2) (op_enc c m1)
         | r -> string_of_res (fun _ -> "") r)
    | ["DEC"; mode; hx] -> string_of_res (dump_msg c) (op_dec c mode (nlist_of_hex hx))
    | ["REENC"; mode; hx] ->
        (match op_dec c mode (nlist_of_hex hx) with
         | Ok m -> string_of_res (fun (b, _) -> hex_of_nlist b) (op_enc c m)
         | r -> string_of_res (fun _ -> "") r)
    | ["RT"; mode; spec] ->
        (match op_enc c (build_msg c spec) with
         | Ok (b1, _) ->
             "OK " ^ hex_of_nlist b1 ^ " | " ^
             (match op_dec c mode b1 with
              | Ok m -> "OK " ^ dump_msg c m ^ " | " ^ string_of_res (fun (b, _) -> hex_of_nlist b) (op_enc c m)
              | r -> string_of_res (fun _ -> "") r)
         | r -> string_of_res (fun _ -> "") r)
    | _ -> "BAD-CASE unknown op"
  with
  | Bad_case s -> "BAD-CASE " ^ s
  | Model_stop s -> s

(* schema table from argv; [with_schema case f] strips an "@name " prefix and runs f on that ctx.
   [render_hook]: the per-type rendering put into every ctx (a driver may point it at a table of
   real conversions reported by the harness; default = the model's render_default) *)
let render_hook : (n -> n list -> n list) ref = ref render_default
let ctx_table : (string * ctx Lazy.t) list Lazy.t = lazy (
  List.filter_map (fun a ->
    match String.index_opt a '=' with
    | Some i -> let name = String.sub a 0 i and path = String.sub a (i + 1) (String.length a - i - 1) in
                Some (name, lazy (load_ctx path (fun ty v -> !render_hook ty v)))
    | None -> None) (List.tl (Array.to_list Sys.argv)))
let with_schema (case : string) (f : ctx -> string -> 'a) : 'a =
  let tbl = Lazy.force ctx_table in
  if String.length case > 0 && case.[0] = '@' then begin
    let sp = (try String.index case ' ' with Not_found -> String.length case) in
    let name = String.sub case 1 (sp - 1) in
    let rest = if sp < String.length case then String.sub case (sp + 1) (String.length case - sp - 1) else "" in
    f (Lazy.force (List.assoc name tbl)) rest
  end else f (Lazy.force (snd (List.hd tbl))) case
(* ============================== END OF CODEC COMMON BLOCK ============================== *)

(* C11 driver.  Cases (see harness/h_c11.cpp):
     CLONE|COPY|MOVE <msgspec>          source built through the model's API functions
     DCLONE|DCOPY|DMOVE <mode> <hex>    source = factory on the bytes
   Result lines: stages separated by " | ", identical to the harness; a modelled memory error
   (OOB) at any stage means the real process dies: the whole result is then "CRASH".
   Oracle: c11_ok (coq/C11/Spec_C11.v) on the objects / byte strings parsed from a result line. *)
exception Model_crash

(* the moved-from source: null pointers print as "null" (same text as dump_mb of the harness) *)
let dump_husk (c : ctx) (b : Buffer.t) (h : husk) : unit =
  let HK (fp, fields, groups, unknown) = h in
  let printed f v =
    let dflt = (match find_trait fp f with Some tr -> tr.t_ftype | None -> n_of_int 15) in
    hex_of_nlist (c.c_render (ftype_of c f dflt) v) in
  let sep first = if !first then first := false else Buffer.add_char b ',' in
  Buffer.add_string b "{p:;f:";
  let first = ref true in
  List.iter (fun (f, v) -> sep first;
    Buffer.add_string b (Printf.sprintf "%d=%s" (int_of_n f) (match v with Some v -> printed f v | None -> "null"))) fields;
  Buffer.add_string b ";g:";
  let first = ref true in
  List.iter (fun (f, els) -> sep first;
    Buffer.add_string b (Printf.sprintf "%d[" (int_of_n f));
    (match els with Some els -> List.iter (dump_mb c b) els | None -> Buffer.add_string b "null");
    Buffer.add_char b ']') groups;
  Buffer.add_string b (";u:" ^ hex_of_nlist unknown ^ ";pr:");
  let first = ref true in
  List.iter (fun tr -> if tr.t_present then (sep first; Buffer.add_string b (string_of_int (int_of_n tr.t_fnum)))) fp;
  Buffer.add_string b ";su:";
  let first = ref true in
  List.iter (fun tr -> if tr.t_suppress then (sep first; Buffer.add_string b (string_of_int (int_of_n tr.t_fnum)))) fp;
  Buffer.add_char b '}'
let dump_husks (c : ctx) (ty : n list) ((kh, kb), kt) : string =
  let b = Buffer.create 1024 in
  Buffer.add_string b ("T=" ^ string_of_nlist ty ^ " H");
  dump_husk c b kh;
  Buffer.add_string b " B";
  dump_husk c b kb;
  Buffer.add_string b " T";
  dump_husk c b kt;
  Buffer.contents b

(* one stage: Ok -> "OK <text>", exception -> its text (and the line stops), OOB -> the process dies *)
let stage (r : 'a res) (f : 'a -> string) : (string, string) result =
  match r with
  | Ok a -> Ok ("OK " ^ f a)
  | OOB _ -> raise Model_crash
  | r -> Error (string_of_res (fun _ -> "") r)

let enc_text (c : ctx) (m : message) : string =
  match op_enc c m with
  | OOB _ -> raise Model_crash
  | r -> string_of_res (fun (b, _) -> hex_of_nlist b) r

let run_c11 (c : ctx) (case : string) : string =
  try
    let w = words case in
    let op, src_r =
      (match w with
       | [("CLONE" | "COPY" | "MOVE" | "SCOPY" | "SMOVE") as op; spec] -> op, Ok (build_msg c spec)
       | [("DCLONE" | "DCOPY" | "DMOVE" | "DSCOPY" | "DSMOVE") as op; mode; hx] -> String.sub op 1 (String.length op - 1), op_dec c mode (nlist_of_hex hx)
       | _ -> raise (Bad_case "unknown op")) in
    match stage src_r (dump_msg c) with
    | Error e -> e
    | Ok s0 ->
      let src = (match src_r with Ok m -> m | _ -> assert false) in
      (* SCOPY / SMOVE: shallow-constructed target *)
      let deep = not (String.length op > 0 && op.[0] = 'S') in
      let op = if deep then op else String.sub op 1 (String.length op - 1) in
      (match op with
       | "CLONE" ->
           let cl = clone c src in
           (match stage cl (dump_msg c) with
            | Error e -> s0 ^ " | " ^ e
            | Ok s1 ->
                let t = (match cl with Ok t -> t | _ -> assert false) in
                let e1 = enc_text c t in
                let e2 = enc_text c src in
                s0 ^ " | " ^ s1 ^ " | " ^ e1 ^ " | " ^ e2)
       | "COPY" ->
           (match copy_msg_to deep c src with
            | Ok (((nb, nh), nt), t) ->
                let s1 = Printf.sprintf "OK %d %d %d %s" (int_of_n nb) (int_of_n nh) (int_of_n nt) (dump_msg c t) in
                let e1 = enc_text c t in
                let e2 = enc_text c src in
                s0 ^ " | " ^ s1 ^ " | OK " ^ dump_msg c src ^ " | " ^ e1 ^ " | " ^ e2
            | OOB _ -> raise Model_crash
            | r -> s0 ^ " | " ^ string_of_res (fun _ -> "") r)
       | _ ->
           (match move_msg_to deep c src with
            | Ok ((((nb, nh), nt), t), ks) ->
                let s1 = Printf.sprintf "OK %d %d %d %s" (int_of_n nb) (int_of_n nh) (int_of_n nt) (dump_msg c t) in
                let e1 = enc_text c t in
                let e2 = enc_text c src in
                s0 ^ " | " ^ s1 ^ " | OK " ^ dump_husks c src.m_type ks ^ " | " ^ e1 ^ " | " ^ e2
            | OOB _ -> raise Model_crash
            | r -> s0 ^ " | " ^ string_of_res (fun _ -> "") r))
  with
  | Bad_case s -> "BAD-CASE " ^ s
  | Model_stop s -> s
  | Model_crash -> "CRASH"

(* ---- parser of the dump text into the oracle's observed objects ---- *)
exception Parse_error of string
let parse_obj_at (s : string) (i : int ref) : obj =
  let len = String.length s in
  let peek () = if !i < len then s.[!i] else '\000' in
  let expect (t : string) =
    let l = String.length t in
    if !i + l <= len && String.sub s !i l = t then i := !i + l else raise (Parse_error ("expected " ^ t)) in
  let looking (t : string) = let l = String.length t in !i + l <= len && String.sub s !i l = t in
  let number () =
    let j = !i in
    while (match peek () with '0'..'9' -> true | _ -> false) do incr i done;
    if !i = j then raise (Parse_error "number");
    n_of_int (int_of_string (String.sub s j (!i - j))) in
  let hex () =
    if peek () = '-' then (incr i; [])
    else begin
      let j = !i in
      while (match peek () with '0'..'9' | 'a'..'f' -> true | _ -> false) do incr i done;
      nlist_of_hex (String.sub s j (!i - j))
    end in
  let rec list_of stop item =
    if peek () = stop then [] else begin
      let x = item () in
      if peek () = ',' then (incr i; x :: list_of stop item) else [x]
    end in
  let rec mb () : obj =
    expect "{p:";
    let pos = list_of ';' (fun () -> let k = number () in expect ":"; let f = number () in expect "="; let v = hex () in (k, (f, v))) in
    expect ";f:";
    let fields = list_of ';' (fun () -> let f = number () in expect "=";
                                if looking "null" then (expect "null"; (f, None)) else (f, Some (hex ()))) in
    expect ";g:";
    let groups = list_of ';' (fun () -> let f = number () in expect "[";
                                let g = if looking "null" then (expect "null"; None)
                                        else begin
                                          let els = ref [] in
                                          while peek () = '{' do els := mb () :: !els done;
                                          Some (List.rev !els)
                                        end in
                                expect "]"; (f, g)) in
    expect ";u:";
    let u = hex () in
    expect ";pr:";
    let pr = list_of ';' number in
    expect ";su:";
    let su = list_of '}' number in
    expect "}";
    Obj (pos, fields, groups, u, pr, su) in
  mb ()

let parse_omsg (s : string) : omsg =
  (* "T=<type> H{..} B{..} T{..}" *)
  if String.length s < 2 || String.sub s 0 2 <> "T=" then raise (Parse_error "T=");
  let sp = (try String.index s ' ' with Not_found -> raise (Parse_error "type")) in
  let ty = nlist_of_string (String.sub s 2 (sp - 2)) in
  let i = ref (sp + 1) in
  let part (tagc : char) =
    if !i < String.length s && s.[!i] = tagc then incr i else raise (Parse_error "part");
    let o = parse_obj_at s i in
    if !i < String.length s && s.[!i] = ' ' then incr i;
    o in
  let h = part 'H' in
  let b = part 'B' in
  let t = part 'T' in
  { o_type = ty; o_hdr = h; o_body = b; o_trl = t }

let split_stages (r : string) : string list =
  (* separator " | " *)
  let out = ref [] and cur = Buffer.create 256 in
  let n = String.length r in
  let k = ref 0 in
  while !k < n do
    if !k + 3 <= n && String.sub r !k 3 = " | " then (out := Buffer.contents cur :: !out; Buffer.clear cur; k := !k + 3)
    else (Buffer.add_char cur r.[!k]; incr k)
  done;
  List.rev (Buffer.contents cur :: !out)

let is_ok (s : string) = String.length s >= 3 && String.sub s 0 3 = "OK "
let after_ok (s : string) = String.sub s 3 (String.length s - 3)
let enc_of (s : string) : n list option = if is_ok s then Some (nlist_of_hex (after_ok s)) else None
let counted (s : string) : n * n * n * omsg =
  (* "OK nb nh nt <dump>" *)
  match words (after_ok s) with
  | a :: b :: c :: _ ->
      let skip = String.length a + String.length b + String.length c + 3 in
      let d = String.sub (after_ok s) skip (String.length (after_ok s) - skip) in
      (n_of_int (int_of_string a), n_of_int (int_of_string b), n_of_int (int_of_string c), parse_omsg d)
  | _ -> raise (Parse_error "counts")

(* the property speaks about messages: a source that cannot be built / decoded is no message
   (vacuously fine, the tie still compares the failure texts); any later failure is a violation *)
let oracle (case : string) (r : string) : bool =
  try
    let op = (match words case with o :: _ -> o | [] -> "") in
    let op = if String.length op > 0 && op.[0] = 'D' then String.sub op 1 (String.length op - 1) else op in
    let op = if String.length op > 0 && op.[0] = 'S' then String.sub op 1 (String.length op - 1) else op in
    match split_stages r with
    | [s] -> not (is_ok s) && String.length s >= 4 && String.sub s 0 4 = "EXC "
    | stages when List.for_all (fun s -> is_ok s || (String.length s >= 4 && String.sub s 0 4 = "EXC ")) stages ->
        (match op, stages with
         | "CLONE", [_; s1; ec; es] when is_ok s1 -> c11_ok (ObsClone (enc_of es, enc_of ec))
         | "COPY", [s0; s1; s2; _; _] when is_ok s1 && is_ok s2 ->
             let (nb, nh, nt, tgt) = counted s1 in
             c11_ok (ObsCopy (parse_omsg (after_ok s0), parse_omsg (after_ok s2), tgt, nb, nh, nt))
         | "MOVE", [s0; s1; s2; et; er] when is_ok s1 && is_ok s2 ->
             let (nb, nh, nt, tgt) = counted s1 in
             c11_ok (ObsMove (parse_omsg (after_ok s0), tgt, nb, nh, nt, enc_of er, enc_of et))
         | _ -> false)
    | _ -> false
  with Parse_error _ | Failure _ | Invalid_argument _ -> false

(* a case for a schema that is not part of this run (a known-finding witness on FIX44 in the quick
   tier, which builds FIX42UTEST only) is skipped on both sides *)
let schema_missing (case0 : string) : bool =
  String.length case0 > 0 && case0.[0] = '@' &&
  (let sp = (try String.index case0 ' ' with Not_found -> String.length case0) in
   not (List.mem_assoc (String.sub case0 1 (sp - 1)) (Lazy.force ctx_table)))

(* rendering: C11.Precision.render_c11 (API-built float fields carry their output precision: the state
   "~p~text" of the model is rendered at precision p).  The digits themselves are not C11's subject:
   when the suite supplies a table of the REAL renderings of fresh (never copied) fields
   (argv "rtable=<file>", lines "<hex state> <hex printed>", harness op RENDER) it is used for the
   marked float states, so that the check does not depend on which modp_dtoa repair /repo is at;
   without an entry the model of C08 (fast_atof / modp_dtoa) is used. *)
let rtable : (string, n list) Hashtbl.t Lazy.t = lazy (
  let tbl = Hashtbl.create 64 in
  Array.iter (fun a ->
    if String.length a > 7 && String.sub a 0 7 = "rtable=" then begin
      try
        let ic = open_in (String.sub a 7 (String.length a - 7)) in
        (try while true do
           match words (input_line ic) with
           | [k; v] -> Hashtbl.replace tbl k (nlist_of_hex v)
           | _ -> ()
         done with End_of_file -> close_in ic)
      with Sys_error _ -> ()
    end) Sys.argv;
  tbl)
let () = render_hook := (fun ty v ->
  match prec_split v with
  | Some _ when is_float_type ty ->
      (match Hashtbl.find_opt (Lazy.force rtable) (hex_of_nlist v) with
       | Some r -> r
       | None -> render_c11 ty v)
  | _ -> render_c11 ty v)

let one_case (case0 : string) (impl : string) : string * bool * bool =
  if schema_missing case0 then ("SKIP schema not built in this tier", true, true)
  else with_schema case0 (fun c case ->
    let m = run_c11 c case in
    (m, oracle case impl, oracle case m))

(* " || "-separated pieces *)
let split_seq (r : string) : string list =
  let out = ref [] and cur = Buffer.create 256 in
  let n = String.length r in
  let k = ref 0 in
  while !k < n do
    if !k + 4 <= n && String.sub r !k 4 = " || " then (out := Buffer.contents cur :: !out; Buffer.clear cur; k := !k + 4)
    else (Buffer.add_char cur r.[!k]; incr k)
  done;
  List.rev (Buffer.contents cur :: !out)

(* SEQ <case> || <case> ...: the model is a function of the context and the message (no state between
   operations): each operation is run on its own; the oracle must hold of every one *)
let () = run_protocol (fun case0 impl ->
  if String.length case0 > 4 && String.sub case0 0 4 = "SEQ " then begin
    let subs = split_seq (String.sub case0 4 (String.length case0 - 4)) in
    let impls = split_seq impl in
    let same_len = List.length subs = List.length impls in
    let rs = List.mapi (fun k sc ->
      let ir = if same_len then List.nth impls k else "" in
      one_case sc ir) subs in
    (String.concat " || " (List.map (fun (m, _, _) -> m) rs),
     same_len && List.for_all (fun (_, oi, _) -> oi) rs,
     List.for_all (fun (_, _, om) -> om) rs)
  end else one_case case0 impl)
