(* C28 driver.  case: "<mode> <mask> <delay> <prog>,... [<dir> <vals>,... [<kind> <layout> <locs>,... [<txts>,...]]]" (see harness/h_c28.cpp); impl result:
   "rets=.. stop=.. file=..".  The model is run under a schedule built (in Coq: sched_for) from what the file
   determines: the order in which the producers' lines entered the queue.  In every mode the modelled logger thread
   writes everything it can reach before stop() returns, regardless of what the implementation did (with the
   repaired loop nothing accepted before stop() may be missing).
   The oracle c28_ok is applied to the implementation's observables. *)
let ztext (s : string) : z list = List.map z_of_int (bytes_of_string s)
let string_of_ztext (t : z list) : string = string_of_bytes (List.map int_of_z t)

let parse_progs (s : string) (txts : string array) : (z * z list) list list =
  List.mapi (fun i p ->
    if p = "-" then []
    else List.init (String.length p) (fun k ->
      let ch = p.[k] in
      if ch >= 'a' then (z_of_int (Char.code ch - 97), [])
      else
        let form = if i < Array.length txts && k < String.length txts.(i) then txts.(i).[k] else '0' in
        let base = Printf.sprintf "%d.%d" i k in
        let t = (match form with
                 | 'n' -> base ^ "\n" | 'e' -> base ^ "\nx" ^ string_of_int k | 'r' -> base ^ "\r\n" | 'N' -> "\n"
                 | _ -> base) in
        (z_of_int (Char.code ch - 48), ztext t))) (split_on ',' s)

let parse_vals (s : string) : string array =
  Array.of_list (List.map (fun v -> if v = "-" then "" else v) (split_on ',' s))

(* a physical line of the file <-> its token: blanks are '/', CR is '~', the empty line is "=" *)
let line_of_token (t : string) : string =
  if t = "=" then "" else String.map (fun c -> if c = '/' then ' ' else if c = '~' then '\r' else c) t
let token_of_line (t : string) : string =
  if t = "" then "=" else String.map (fun c -> if c = ' ' then '/' else if c = '\r' then '~' else c) t

(* the physical lines of a file made of the records (number, rest): "%07d <rest>\n" each *)
let phys_lines (noseq : bool) (f : (nat * z list) list) : string list =
  let all = String.concat "" (List.map (fun (s, t) ->
              if noseq then string_of_ztext t ^ "\n" else Printf.sprintf "%07d %s\n" (int_of_nat s) (string_of_ztext t)) f) in
  match List.rev (split_on '\n' all) with
  | "" :: r -> List.rev r
  | r -> List.rev r

(* physical lines -> records: a line "ddddddd <..>" begins a record, other lines continue the text of the record before *)
(* a logger without the sequence flag writes no numbers: every physical line is a record (no line ends in the texts of
   such cases); the number the model keeps for it is its ordinal in its series (one series, or in/out with direction) *)
let records_noseq (d : bool) (ls : string list) : (nat * z list) list =
  let si = ref 0 and so = ref 0 in
  List.map (fun l ->
    let isin = d && String.length l >= 3 && String.sub l 0 3 = " in" in
    let n = if (not d) || isin then (incr si; !si) else (incr so; !so) in
    (nat_of_int n, ztext l)) ls

let records_of_lines (ls : string list) : (nat * z list) list =
  let starts l = String.length l >= 8 && l.[7] = ' ' &&
                 (let ok = ref true in String.iteri (fun i c -> if i < 7 && (c < '0' || c > '9') then ok := false) l; !ok) in
  let flush cur acc = match cur with
    | None -> acc
    | Some (n, parts) -> (nat_of_int n, ztext (String.concat "\n" (List.rev parts))) :: acc in
  let rec go cur acc = function
    | [] -> List.rev (flush cur acc)
    | l :: t when starts l ->
        go (Some (int_of_string (String.sub l 0 7), [String.sub l 8 (String.length l - 8)])) (flush cur acc) t
    | l :: t -> (match cur with
                 | Some (n, parts) -> go (Some (n, l :: parts)) acc t
                 | None -> failwith "line outside a record") in
  go None [] ls

let field (name : string) (impl : string) : string option =
  let pre = name ^ "=" in
  List.fold_left (fun acc w ->
    if acc = None && String.length w >= String.length pre && String.sub w 0 (String.length pre) = pre
    then Some (String.sub w (String.length pre) (String.length w - String.length pre)) else acc) None (words impl)

let show_obs (noseq : bool) (o : obs) : string =
  let rets = String.concat "," (List.map (fun r -> if r = [] then "-" else String.concat "" (List.map b01 r)) o.o_rets) in
  let ls = phys_lines noseq o.o_file in
  let file = if ls = [] then "-" else String.concat "," (List.map token_of_line ls) in
  Printf.sprintf "rets=%s stop=%s file=%s post=%d" rets (b01 o.o_stopped) file (List.length ls)

(* implementation observables; None if the result is not of the expected shape *)
let impl_obs (noseq : bool) (d : bool) (impl : string) : obs option =
  match field "rets" impl, field "stop" impl, field "file" impl with
  | Some r, Some st, Some f ->
    (try
      let rets = List.map (fun s -> if s = "-" then [] else List.init (String.length s) (fun i ->
                   match s.[i] with '1' -> true | '0' -> false | _ -> failwith "ret")) (split_on ',' r) in
      let lines = if f = "-" then [] else List.map line_of_token (split_on ',' f) in
      let file = if noseq then records_noseq d lines else records_of_lines lines in
      (* everything that is in the file after the logger's destruction must have been there when stop() returned *)
      let nl = if f = "-" then 0 else List.length (split_on ',' f) in
      (match field "post" impl with
       | Some p when int_of_string p = nl -> ()
       | _ -> failwith "post");
      Some { o_rets = rets; o_file = file; o_stopped = (st = "1") }
    with _ -> None)
  | _ -> None

(* producer numbers in file order, as far as the texts tell *)
let order_of (f : string) (np : int) : nat list =
  if f = "-" then [] else
  List.filter_map (fun tok ->
    let p = (match String.rindex_opt tok '/' with Some p -> p | None -> -1) in
    begin
      let t = String.sub tok (p + 1) (String.length tok - p - 1) in
      (match String.index_opt t '.' with
       | None -> None
       | Some d -> (try let i = int_of_string (String.sub t 0 d) in
                        if i >= 0 && i < np then Some (nat_of_int i) else None with _ -> None))
    end) (split_on ',' f)

let () = run_protocol (fun case impl ->
  let go mask progs dir vals txts layout =
    let noseq = String.contains layout 'Q' in
    let m = z_of_string mask and ps = parse_progs progs (parse_vals txts) and d = (dir = "1") and va = parse_vals vals in
    let vf (i : nat) (k : nat) : z =
      let i = int_of_nat i and k = int_of_nat k in
      if i < Array.length va && k < String.length va.(i) then
        (match va.(i).[k] with '0' -> z_of_int 0 | '1' -> z_of_int 1 | _ -> z_of_int 4096)
      else z_of_int 0 in
    let f = (match field "file" impl with Some f -> f | None -> "-") in
    let order = order_of f (List.length ps) in
    let o = run_case m d vf order ps in
    let om = c28_ok d m vf ps o in
    let oi = (match impl_obs noseq d impl with Some io -> c28_ok d m vf ps io | None -> false) in
    (show_obs noseq o, oi, om) in
  match words case with
  | [_mode; mask; _delay; progs] -> go mask progs "0" "-" "-" "-"
  | [_mode; mask; _delay; progs; dir; vals] -> go mask progs dir vals "-" "-"
  | [_mode; mask; _delay; progs; dir; vals; _kind; layout; _locs; txts] -> go mask progs dir vals txts layout
  (* logger kind, layout flags, file/line strings: they change the layout of a line, not what the harness extracts from it *)
  | [_mode; mask; _delay; progs; dir; vals; _kind; layout; _locs] -> go mask progs dir vals "-" layout
  | _ -> ("BAD-CASE", false, false))
