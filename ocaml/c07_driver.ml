(* C07 driver.  case: "<hex mem> <sz> <offset> <len>"; impl result: "<value>" | "OOB" | other *)
let () = run_protocol (fun case impl ->
  match words case with
  | [hx; sz; off; len] ->
    let mem = zlist_of_hex hx and sz = z_of_string sz and off = z_of_string off and len = z_of_string len in
    let r = calc_chksum mem sz off len in
    let ms = (match r with None -> "OOB" | Some (v, _) -> string_of_z v) in
    let om = c07_ok mem sz off len r in
    let iv = (try Some (z_of_int (int_of_string impl)) with _ -> None) in
    let oi = c07_ok_impl mem sz off len iv in
    (ms, oi, om)
  | _ -> ("BAD-CASE", false, false))
