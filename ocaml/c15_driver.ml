(* C15 driver.  case: "<closed 0|1> <mode 0|1> <hex chunk>,<hex chunk>,..." ("-" = no chunk)
   impl result: "D <hex>,<hex>,...|<END>"  |  "OOB"  |  other (see harness/h_c15.cpp) *)
let p = std_params fix42
let limit = len_limit p
let maxw = max_width p

let chunks_of s = if s = "-" then [] else List.map nlist_of_hex (split_on ',' s)
let hexs l = if l = [] then "-" else String.concat "," (List.map hex_of_nlist l)

let string_of_n (x : n) : string = match x with N0 -> "0" | Npos q -> string_of_z (Zpos q)

let show (d, e) =
  match e with
  | EOob -> "OOB"
  | _ ->
    "D " ^ hexs d ^ "|" ^
    (match e with
     | EWait -> "WAIT"
     | EPeerReset -> "PEERRESET"
     | EIllegal t -> "ILLEGAL " ^ hex_of_nlist t
     | EBadVersion t -> "BADVERSION " ^ hex_of_nlist t
     | EBadLen n -> "BADLEN " ^ string_of_n n
     | EOob -> "OOB"
     | EOther -> "MODEL-OTHER")

let rd_of_ending e =
  match e with
  | EWait -> RWait | EPeerReset -> RPeerReset
  | EIllegal _ | EBadVersion _ | EBadLen _ -> RError
  | EOob -> RMemory | EOther -> ROther

(* parse an implementation result into (delivered, rd_end) *)
let parse_impl (r : string) =
  if r = "OOB" then ([], RMemory)
  else if String.length r > 2 && String.sub r 0 2 = "D " then
    (match String.index_opt r '|' with
     | None -> ([], ROther)
     | Some i ->
       let ds = String.sub r 2 (i - 2) and e = String.sub r (i + 1) (String.length r - i - 1) in
       let d = (try Some (chunks_of ds) with _ -> None) in
       let starts pre = String.length e >= String.length pre && String.sub e 0 (String.length pre) = pre in
       let e' =
         if e = "WAIT" then RWait else if e = "PEERRESET" then RPeerReset
         else if starts "ILLEGAL " || starts "BADVERSION " || starts "BADLEN " then RError
         else ROther in
       (match d with Some d -> (d, e') | None -> ([], ROther)))
  else ([], ROther)

let () = run_protocol (fun case impl ->
  match words case with
  | [closed; _mode; ch] ->
    let closed = (closed = "1") in
    let chunks = chunks_of ch in
    let stream = List.concat chunks in
    let (d, e) = run p chunks closed in
    let om = c15_ok fix42 limit maxw stream closed d (rd_of_ending e) in
    let (di, ei) = parse_impl impl in
    let oi = c15_ok fix42 limit maxw stream closed di ei in
    (show (d, e), oi, om)
  | _ -> ("BAD-CASE", false, false))
