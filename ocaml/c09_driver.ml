(* C09 driver.
   cases:  "T <ticks>"                 -> "TS=<text>,<r> TO=.. DO=.. LD=.. M6=.. M8=.."
           "P <TS|TO|DO|LD|MY> <hex>"  -> "<r> <text>"        (r = ticks | OOB | NOW)
           "L <secs> <nsecs> <dplaces>"-> "<gm text>|<localtime text>"
           "S <secs>,<nsecs>,<dplaces>,<gm> ..." -> "<text>|<text>|..."  (one rendering per call, in order;
                                          the model renders each call independently: the function is stateless)
           "C <iters> <t,..>;<t,..>;.."-> "K0=0 K1=0 .."   mismatches per thread between the concurrent and the
                                          single-threaded rendering of the same instants; the model function is
                                          pure, so its answer is 0 for every thread
           "G <day>"                   -> "<year> <month> <day> <hour> <min> <sec>"  (get_tm of midnight of that day)
   texts are escaped: bytes outside 33..126 (and backslash, '|') as \xHH; in L a space stays. *)
let esc ?(space=false) (l : z list) : string =
  String.concat "" (List.map (fun c ->
    let c = int_of_z c in
    if (c > 32 && c < 127 && c <> 92 && c <> 124) || (space && c = 32) then String.make 1 (Char.chr c)
    else Printf.sprintf "\\x%02x" (c land 255)) l)

let unesc (s : string) : z list =
  let n = String.length s in
  let rec go i acc =
    if i >= n then List.rev acc
    else if s.[i] = '\\' && i + 3 < n && s.[i+1] = 'x' then
      go (i + 4) (z_of_int (hexval s.[i+2] * 16 + hexval s.[i+3]) :: acc)
    else go (i + 1) (z_of_int (Char.code s.[i]) :: acc) in
  go 0 []

let is_int (s : string) : bool =
  let n = String.length s in
  n > 0 && (let st = if s.[0] = '-' then 1 else 0 in
            n > st && (let ok = ref true in
                       for i = st to n - 1 do if s.[i] < '0' || s.[i] > '9' then ok := false done; !ok))
let ticks_opt (s : string) : z option = if is_int s then Some (z_of_string s) else None

let outcome_str (o : outcome) : string =
  match o with Ticks (t, _) -> string_of_z t | OOB -> "OOB" | Now -> "NOW"
let outcome_opt (o : outcome) : z option = observe_out o

let tags = ["TS"; "TO"; "DO"; "LD"; "M6"; "M8"]

(* "TS=<text>,<r>" -> (text, r) ; split at the last comma *)
let parse_item (tag : string) (w : string) : (z list * z option) option =
  let n = String.length w in
  if n < 4 || String.sub w 0 3 <> tag ^ "=" then None
  else match String.rindex_opt w ',' with
    | None -> None
    | Some i when i < 3 -> None
    | Some i -> Some (unesc (String.sub w 3 (i - 3)), ticks_opt (String.sub w (i + 1) (n - i - 1)))

let () = run_protocol (fun case impl ->
  match words case with
  | ["T"; t] ->
    let t = z_of_string t in
    let res = roundtrip t in
    let ms = String.concat " " (List.map2 (fun tag (txt, o) -> tag ^ "=" ^ esc txt ^ "," ^ outcome_str o) tags res) in
    let om = c09_ok t (observe res) in
    let oi = if impl = ms then om else
      (let ws = split_on ' ' impl in
       if List.length ws <> 6 then false
       else
         let items = List.map2 parse_item tags ws in
         if List.exists (fun x -> x = None) items then false
         else c09_ok t (List.map (function Some p -> p | None -> assert false) items)) in
    (ms, oi, om)
  | ["P"; k; hx] ->
    let s = zlist_of_hex hx in
    let len = List.length s in
    let mk, sk = (match k with
      | "TS" -> K_TS, S_TS | "TO" -> K_TO, S_TO | "DO" -> K_DO, S_DO | "LD" -> K_LD, S_LD
      | "MY" -> if len = 6 then K_M6, S_M6 else K_M8, S_M8
      | _ -> failwith "kind") in
    let (o, txt) = parse_print mk s in
    let ms = (match o with Ticks _ -> outcome_str o ^ " " ^ esc txt | _ -> outcome_str o) in
    let om = c09_parse_ok sk s (outcome_opt o) in
    let ir = (match split_on ' ' impl with w :: _ -> ticks_opt w | [] -> None) in
    let oi = if impl = ms then om else c09_parse_ok sk s ir in
    (ms, oi, om)
  | ["L"; secs; nsecs; d] ->
    let secs = z_of_string secs and nsecs = z_of_string nsecs and d = nat_of_int (int_of_string d) in
    let txt = log_render secs nsecs d in
    let ms = esc ~space:true txt ^ "|" ^ esc ~space:true txt in
    let om = c09_log_ok secs nsecs d txt in
    let oi = if impl = ms then om else (match split_on '|' impl with
      | [a; b] -> c09_log_ok secs nsecs d (unesc a) && c09_log_ok secs nsecs d (unesc b)
      | _ -> false) in
    (ms, oi, om)
  | "S" :: items when items <> [] ->
    let calls = List.map (fun it -> match split_on ',' it with
      | [a; b; c; _] -> (z_of_string a, z_of_string b, nat_of_int (int_of_string c))
      | _ -> failwith "item") items in
    let txts = List.map (fun (a, b, d) -> log_render a b d) calls in
    let ms = String.concat "|" (List.map (esc ~space:true) txts) in
    let om = List.for_all2 (fun (a, b, d) t -> c09_log_ok a b d t) calls txts in
    let oi = if impl = ms then om else
      (let parts = split_on '|' impl in
       List.length parts = List.length calls &&
       List.for_all2 (fun (a, b, d) t -> c09_log_ok a b d (unesc t)) calls parts) in
    (ms, oi, om)
  | ["C"; _; lists] ->
    let k = List.length (split_on ';' lists) in
    let ms = String.concat " " (List.init k (fun j -> Printf.sprintf "K%d=0" j)) in
    (ms, impl = ms, true)
  | ["G"; day] ->
    let day = z_of_string day in
    let r = tv_get_tm (Z.mul day (z_of_string "86400000000000")) in
    let y = Z.add r.tm_year (z_of_int 1900) and m = Z.add r.tm_mon (z_of_int 1) in
    let ms = String.concat " " (List.map string_of_z [y; m; r.tm_mday; r.tm_hour; r.tm_min; r.tm_sec]) in
    let ok l = (match l with
      | [y; m; d; h; mi; s] -> c09_civil_ok day y m d && h = Z0 && mi = Z0 && s = Z0
      | _ -> false) in
    let om = ok [y; m; r.tm_mday; r.tm_hour; r.tm_min; r.tm_sec] in
    let oi = if impl = ms then om else
      (let ws = words impl in List.for_all is_int ws && ok (List.map z_of_string ws)) in
    (ms, oi, om)
  | _ -> ("BAD-CASE", false, false))
