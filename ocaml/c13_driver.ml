(* C13 / C14 driver (the two files c13_driver.ml and c14_driver.ml are identical).
   case: "<harness part> @ <src> @ <schema term>"
     harness part  T <ncomps>                          tables of the schema
                   M <ncomps> <msgtype> <nprobes> ...  trait tree + probes, oracle c13_msg_ok
                   G <ncomps> <msgtype> <nprobes> ...  the same, oracle c14_ok (groups only)
                   Q <what> [<msgtype>]                premise evaluation for the classifiers
   impl result: the harness' dump, or F8C-FAIL / COMPILE-FAIL / CRASH ... *)

let bytes_of_str (s : string) : n list = List.map n_of_int (bytes_of_string s)
let str_of_bytes (l : n list) : string = string_of_bytes (List.map int_of_n l)
let unhexs (s : string) : n list = nlist_of_hex s
let hexs (l : n list) : string = hex_of_nlist l

(* ------------------------------------------------------------------ token streams *)
type toks = { a : string array; mutable i : int }
let mk s = { a = Array.of_list (words s); i = 0 }
let next t = if t.i >= Array.length t.a then failwith "eof" else (let x = t.a.(t.i) in t.i <- t.i + 1; x)
let peek t = if t.i >= Array.length t.a then "" else t.a.(t.i)
let next_int t = int_of_string (next t)
let next_bool t = (next t = "1")
(* `required` texts as f8c reads them ("1"/"0" are the generators' shorthand): fields and groups
   `== "Y"`; component references through get_value<bool>: true / yes / y in any case, or 1 *)
let req_fg t = (let x = next t in x = "1" || x = "Y")
let req_comp t = (let x = String.lowercase_ascii (next t) in x = "1" || x = "true" || x = "yes" || x = "y")
(* msgcat % "admin": case-insensitive *)
let is_admin_tok x = (x = "1" || String.lowercase_ascii x = "admin")
let expect t s = let x = next t in if x <> s then failwith ("expected " ^ s ^ " got " ^ x)
let rec times k f = if k <= 0 then [] else (let x = f () in x :: times (k - 1) f)

(* ------------------------------------------------------------------ schema term *)
let rec p_items t : item list =
  let k = next_int t in
  times k (fun () ->
    match next t with
    | "f" -> let nm = next t in let r = req_fg t in IField (bytes_of_str nm, r)
    | "g" -> let nm = next t in let r = req_fg t in let sub = p_items t in IGroup (bytes_of_str nm, r, sub)
    | "c" -> let nm = next t in let r = req_comp t in IComp (bytes_of_str nm, r)
    | x -> failwith ("item " ^ x))

let p_schema (s : string) : schema =
  let t = mk s in
  expect t "S";
  let ty = next t in let ma = next t in let mi = next t in let rv = next t in
  let nf = next_int t in
  let fields = times nf (fun () ->
    expect t "F";
    let num = next_int t in let nm = next t in let typ = next t in
    let nv = next_int t in
    let vals = times nv (fun () ->
      expect t "V";
      let e = next t in let d = next t in let r = next_bool t in
      { ev_enum = unhexs e; ev_desc = unhexs d; ev_range = r }) in
    { fd_num = n_of_int num; fd_name = bytes_of_str nm; fd_type = bytes_of_str typ; fd_vals = vals }) in
  let nc = next_int t in
  let comps = times nc (fun () -> expect t "C"; let nm = next t in let its = p_items t in (bytes_of_str nm, its)) in
  expect t "H"; let h = p_items t in
  expect t "T"; let tr = p_items t in
  let nm = next_int t in
  let msgs = times nm (fun () ->
    expect t "M";
    let name = next t in let mt = next t in let adm = is_admin_tok (next t) in let its = p_items t in
    { md_name = bytes_of_str name; md_type = bytes_of_str mt; md_admin = adm; md_items = its }) in
  { s_type = bytes_of_str ty; s_major = bytes_of_str ma; s_minor = bytes_of_str mi; s_rev = bytes_of_str rv;
    s_fields = fields; s_comps = comps; s_header = h; s_trailer = tr; s_msgs = msgs }

(* ------------------------------------------------------------------ probes *)
let rec p_pnodes t : pnode list =
  let k = next_int t in
  times k (fun () ->
    match next t with
    | "f" -> let num = next_int t in let _ = next t in PField (n_of_int num)
    | "g" -> let num = next_int t in let ne = next_int t in
             let els = times ne (fun () -> p_pnodes t) in PGroup (n_of_int num, els)
    | x -> failwith ("pnode " ^ x))

(* ------------------------------------------------------------------ printing (harness format) *)
let hexn (x : n) : string = Printf.sprintf "%x" (int_of_n x)

let rec pr_node (b : Buffer.t) (nd : mnode) : unit =
  match nd with
  | MNode (traits, subs) ->
    List.iter (fun (_, t) ->
      Buffer.add_string b (Printf.sprintf " %d,%d,%d,%s,%s" (int_of_n t.t_num) (int_of_n t.t_ty) (int_of_n t.t_pos)
        (if t.t_comp = [] then "-" else str_of_bytes t.t_comp) (hexn t.t_flags));
      (match sm_find [t.t_num] subs with
       | Some sn -> Buffer.add_string b " {"; pr_node b sn; Buffer.add_string b " }"
       | None -> ())) traits

let pr_rval (v : rval) : string =
  match v with
  | RInt z -> "i" ^ string_of_z z
  | RChar c -> "c" ^ string_of_int (int_of_n c)
  | RStr s -> "x" ^ hexs s
  | RFloat z -> "d" ^ string_of_z z

let pr_tables (t : tables) : string =
  let b = Buffer.create 4096 in
  Buffer.add_string b (Printf.sprintf "V %d %s | F" (int_of_n t.tb_version) (hexs t.tb_begin));
  List.iter (fun (k, fe) ->
    Buffer.add_string b (Printf.sprintf " %s,%d,%s,%d," (match k with [x] -> string_of_int (int_of_n x) | _ -> "?")
      (int_of_n fe.fe_num) (str_of_bytes fe.fe_name) (int_of_n fe.fe_cls));
    (match fe.fe_realm with
     | None -> Buffer.add_string b "-"
     | Some r ->
       Buffer.add_string b (Printf.sprintf "%s:%d:%d:" (if r.r_range then "R" else "S") (int_of_n r.r_ty) (List.length r.r_vals));
       List.iteri (fun i (_, (v, d)) ->
         if i > 0 then Buffer.add_char b ';';
         Buffer.add_string b (pr_rval v); Buffer.add_char b '='; Buffer.add_string b (hexs d)) r.r_vals)) t.tb_fields;
  Buffer.add_string b " | M";
  List.iter (fun (_, me) ->
    Buffer.add_string b (Printf.sprintf " %s,%s,%s" (hexs me.me_type) (str_of_bytes me.me_name) (b01 me.me_admin))) t.tb_msgs;
  Buffer.add_string b " | C";
  List.iter (fun k -> Buffer.add_char b ' '; Buffer.add_string b (str_of_bytes k)) t.tb_comps;
  Buffer.contents b

(* ------------------------------------------------------------------ parsing the harness' dumps *)
let split_str (sep : string) (s : string) : string list =
  Str.split_delim (Str.regexp_string sep) s

let p_trait (tok : string) : key * trait =
  match split_on ',' tok with
  | [a; b; c; d; e] ->
    let num = n_of_int (int_of_string a) in
    ([num], { t_num = num; t_ty = n_of_int (int_of_string b); t_pos = n_of_int (int_of_string c);
              t_comp = (if d = "-" then [] else bytes_of_str d); t_flags = n_of_int (int_of_string ("0x" ^ e)) })
  | _ -> failwith ("trait " ^ tok)

let rec p_node t : mnode =
  let traits = ref [] and subs = ref [] in
  let fin = ref false in
  while not !fin do
    let x = peek t in
    if x = "" || x = "}" || x = "|" then fin := true
    else begin
      let (k, tr) = p_trait (next t) in
      traits := (k, tr) :: !traits;
      if peek t = "{" then begin
        ignore (next t);
        let sn = p_node t in
        expect t "}";
        subs := (k, sn) :: !subs
      end
    end
  done;
  MNode (List.rev !traits, List.rev !subs)

let p_rval (s : string) : rval =
  let rest = String.sub s 1 (String.length s - 1) in
  match s.[0] with
  | 'i' -> RInt (z_of_string rest)
  | 'c' -> RChar (n_of_int (int_of_string rest))
  | 'x' -> RStr (unhexs rest)
  | 'd' -> RFloat (z_of_string rest)
  | _ -> failwith "rval"

let p_tables (s : string) : tables =
  match split_str " | " s with
  | [v; f; m; c] ->
    let vt = words v in
    let (ver, beg) = (match vt with ["V"; a; b] -> (n_of_int (int_of_string a), unhexs b) | _ -> failwith "V") in
    let fields = List.map (fun tok ->
      match split_on ',' tok with
      | [k; num; nm; cls; rl] ->
        let realm =
          if rl = "-" then None
          else (match split_on ':' rl with
                | [kind; ty; _sz; vals] ->
                  let vs = if vals = "" then [] else List.map (fun vd ->
                    match split_on '=' vd with
                    | [v; d] -> let rv = p_rval v in (rkey rv, (rv, unhexs d))
                    | _ -> failwith "val") (split_on ';' vals) in
                  (* a size that disagrees with the number of listed values cannot happen: the harness prints _sz values *)
                  Some { r_range = (kind = "R"); r_ty = n_of_int (int_of_string ty); r_vals = vs }
                | _ -> failwith "realm") in
        ([n_of_int (int_of_string k)],
         { fe_num = n_of_int (int_of_string num); fe_name = bytes_of_str nm; fe_cls = n_of_int (int_of_string cls); fe_realm = realm })
      | _ -> failwith ("field " ^ tok)) (List.tl (words f)) in
    let msgs = List.map (fun tok ->
      match split_on ',' tok with
      | [ty; nm; ad] -> let tb = unhexs ty in (tb, { me_type = tb; me_name = bytes_of_str nm; me_admin = (ad = "1") })
      | _ -> failwith ("msg " ^ tok)) (List.tl (words m)) in
    let comps = List.map bytes_of_str (List.tl (words c)) in
    { tb_version = ver; tb_begin = beg; tb_fields = fields; tb_msgs = msgs; tb_comps = comps }
  | _ -> failwith "tables"

(* ------------------------------------------------------------------ per-schema cache *)
type sinfo = { sch : schema; spec : meta option Lazy.t; mdl : meta option Lazy.t; xs : xschema option Lazy.t;
               xq : xschema option Lazy.t; defs : (n * gdef) list Lazy.t }
let cache : (string, sinfo) Hashtbl.t = Hashtbl.create 16
let info (term : string) : sinfo =
  match Hashtbl.find_opt cache term with
  | Some i -> i
  | None ->
    let sch = p_schema term in
    let xq = lazy (expand_schema true sch) in
    let i = { sch; spec = lazy (meta_of_schema sch); mdl = lazy (f8c_meta sch); xs = lazy (expand_schema false sch); xq;
              defs = lazy (match Lazy.force xq with Some x -> schema_defs x | None -> []) } in
    if Hashtbl.length cache > 64 then Hashtbl.reset cache;
    Hashtbl.add cache term i; i

let uses_undefined_class (m : meta) : bool =
  List.exists (fun (_, fe) -> int_of_n fe.fe_cls = 0) m.mt_tables.tb_fields

let find_items (x : xschema) (mt : n list) : ritem list option =
  if mt = hEADER then Some x.x_header
  else if mt = tRAILER then Some x.x_trailer
  else (match List.find_opt (fun (m, _) -> m.md_type = mt) x.x_msgs with Some (_, r) -> Some r | None -> None)

let () = run_protocol (fun case impl ->
  match split_str " @ " case with
  | [hpart; _src; term] ->
    let si = info term in
    let t = mk hpart in
    let kind = next t in
    (match kind with
     | "Q" ->
       let what = next t in
       let ans =
         (match what with
          | "wf" -> wf_schema si.sch
          | "inj" -> defs_injective (Lazy.force si.defs)
          | "clash" ->
            let mt = bytes_of_str (next t) in
            (match (Lazy.force si.xq) with
             | Some x -> (match find_items x mt with Some its -> msg_clash (Lazy.force si.defs) its | None -> false)
             | None -> false)
          | "quirk" ->
            let mt = bytes_of_str (next t) in
            (match (Lazy.force si.xq), (Lazy.force si.xs) with
             | Some a, Some b -> (match find_items a mt, find_items b mt with
                                  | Some p, Some q -> not (gdef_eqb p q) | _, _ -> false)
             | _, _ -> false)
          | "tz" ->
            let mt = bytes_of_str (next t) in
            let rec nums (x : ritem) : n list =
              (match x with RField (k, _, _, _) -> [k] | RGroup (k, _, _, sub) -> k :: List.concat_map nums sub) in
            (match (Lazy.force si.xs), (Lazy.force si.spec) with
             | Some x, Some m ->
               (match find_items x mt with
                | Some its -> List.exists (fun k -> lossy_of m.mt_tables k) (List.concat_map nums its)
                | None -> false)
             | _, _ -> false)
          | "noclass" -> (match (Lazy.force si.spec) with Some m -> uses_undefined_class m | None -> false)
          | _ -> failwith "Q") in
       (b01 ans, true, true)
     | "T" ->
       let ms = (match (Lazy.force si.mdl) with
                 | None -> "F8C-FAIL"
                 | Some m -> if uses_undefined_class m then "COMPILE-FAIL" else pr_tables m.mt_tables) in
       let oi = (match (Lazy.force si.spec) with
                 | Some sp -> (try c13_tables_ok_m sp (p_tables impl) with _ -> false)
                 | None -> false) in
       let om = (match (Lazy.force si.spec), (Lazy.force si.mdl) with
                 | Some sp, Some m -> (not (uses_undefined_class m)) && c13_tables_ok_m sp m.mt_tables
                 | _, _ -> false) in
       (ms, oi, om)
     | "M" | "G" ->
       let _ncomps = next_int t in
       let mt = bytes_of_str (next t) in
       let np = next_int t in
       let probes = times np (fun () -> let h = p_pnodes t in let b = p_pnodes t in (h, b)) in
       (* the model: trait tree f8c generates, outcomes the codec produces on it *)
       let (ms, mnode_m, outs_m) =
         (match (Lazy.force si.mdl) with
          | None -> ("F8C-FAIL", None, [])
          | Some m ->
            if uses_undefined_class m then ("COMPILE-FAIL", None, [])
            else (match sm_find mt m.mt_nodes, sm_find hEADER m.mt_nodes with
                  | Some nd, Some hd ->
                    let outs = List.map (fun (h, b) -> probe_outcome (lossy_of m.mt_tables) hd nd h b) probes in
                    let b = Buffer.create 1024 in
                    Buffer.add_string b "N"; pr_node b nd; Buffer.add_string b " |";
                    List.iter (fun o -> Buffer.add_char b ' '; Buffer.add_string b (string_of_int (int_of_n o))) outs;
                    (Buffer.contents b, Some nd, outs)
                  | _, _ -> ("NO-SUCH-MESSAGE", None, []))) in
       let ok nd outs =
         if kind = "M" then (match (Lazy.force si.spec) with Some sp -> c13_msg_ok_m sp mt nd probes outs | None -> false)
         else (match (Lazy.force si.xs) with Some x -> c14_ok_x x mt nd probes outs | None -> false) in
       let oi =
         (try
            (match split_str " |" impl with
             | [npart; opart] ->
               let tn = mk npart in
               expect tn "N";
               let nd = p_node tn in
               let outs = List.map (fun w -> n_of_int (int_of_string w)) (words opart) in
               ok nd outs
             | _ -> false)
          with _ -> false) in
       let om = (match mnode_m with Some nd -> ok nd outs_m | None -> false) in
       (ms, oi, om)
     | _ -> ("BAD-CASE", false, false))
  | _ -> ("BAD-CASE", false, false))
