(* C12 driver.  (suffix 4 on an op = the same on the FIX44 schema)
   case:  "T <table> <lo> <hi>"   every tag lo..hi against one field-trait table (hash-array find)
          "TS <fnum:pos:comp:traits,...> <lo> <hi>"   the same against a synthetic trait table built from the case
          "F <lo> <hi>"           every tag lo..hi against F8MetaCntx::find_be (_flu) and _be (GeneratedTable)
          "M <hex>..."            msgtype strings against _bme (GeneratedTable, strcmp)
          "RF <hex>..." / "RM <hex>..."   reverse name lookups (fields / messages)
          "PS <ctor> <op>..."     presorted_set<unsigned short, FieldTrait, FieldTrait::Compare>
          "PG <ctor> <op>..."     generic presorted_set<short, GElem, GElem::Less>
            ctor: A:<reserve>:<k.p,...> | E:<sz>:<reserve> | H:<k.p,...>
            op:   f<k> a<k> t<i> i<k>.<p> r<k>.<p>/<k>.<p>/.. c
   impl:  tables: the dump of the table (T= / K= / N=) followed by the answers; see h_c12.cpp
          PS/PG: "<res>/<size>/<rsize>,..." per op, or FAULT *)
let csv s = if s = "" then [] else split_on ',' s
let kv_fields impl =
  List.filter_map (fun w -> match String.index_opt w '=' with
    | Some i -> Some (String.sub w 0 i, String.sub w (i+1) (String.length w - i - 1))
    | None -> None) (words impl)
let get f k = try List.assoc k f with Not_found -> failwith "NO-DUMP"
let ios = int_of_string
let soi = string_of_int
let idx_str = function None -> "-1" | Some k -> soi (int_of_nat k)
let idx_of_int i = if i < 0 then None else Some (nat_of_int i)
let strip = function Some x -> x | None -> failwith "MODEL-ERROR"
let base_op s = let n = String.length s in if n > 1 && s.[n-1] = '4' then String.sub s 0 (n-1) else s
let zeq = Z.eqb

(* ---------- trait tables ---------- *)
let trait_line ?tab lo hi impl =
  let f = kv_fields impl in
  (* schema tables are read from the implementation's dump; a synthetic table (TS) is given by the case and the
     implementation's dump of what it built must equal it *)
  let tsrc = (match tab with Some t -> t | None -> get f "T") in
  let ents = List.map (fun e -> match split_on ':' e with
      | [k; p; c; v] -> (ios k, ios p, ios c, ios v) | _ -> failwith "BAD-DUMP") (csv tsrc) in
  let keys = List.map (fun (k,_,_,_) -> z_of_int k) ents in
  let earr = Array.of_list ents in
  let wf = sortedb Z.ltb keys && keys <> [] in
  let fmt t j = let (_, p, c, v) = earr.(j) in
    Printf.sprintf "%d:%d:%d:%d:%d:%d%d" t j (if v land 4 <> 0 then p else 0) c v (v land 1) ((v lsr 3) land 1) in
  (* the implementation's hits *)
  let ihits = Hashtbl.create 64 in
  let iok = ref true in
  List.iter (fun h -> match split_on ':' h with
      | t :: j :: _ -> Hashtbl.replace ihits (ios t) (ios j, h) | _ -> iok := false) (csv (get f "H"));
  let imiss = (try ios (get f "M") with _ -> -1) in
  let hits = Buffer.create 256 and misses = ref 0 and first = ref true in
  let oi = ref (!iok) and om = ref true in
  for t = lo to min hi 65535 do
    let zt = z_of_int t in
    let r = strip (ftha_find keys keys zt) in
    (match r with
     | Some j -> if not !first then Buffer.add_char hits ','; first := false;
       Buffer.add_string hits (fmt t (int_of_nat j))
     | None -> incr misses);
    if not (c12_lookup_ok zeq keys zt r) then om := false;
    let ri = (match Hashtbl.find_opt ihits t with
        | Some (j, h) -> if j < 0 || j >= Array.length earr || h <> fmt t j then oi := false; idx_of_int j
        | None -> None) in
    if not (c12_lookup_ok zeq keys zt ri) then oi := false
  done;
  if imiss <> (min hi 65535 - lo + 1) - Hashtbl.length ihits then oi := false;
  if tab <> None && (try get f "T" <> tsrc with _ -> true) then oi := false;
  ((if wf then "" else "ILL-FORMED-TABLE ") ^ Printf.sprintf "T=%s H=%s M=%d" tsrc (Buffer.contents hits) !misses,
   !oi && wf, !om && wf)

(* ---------- field table: _flu and GeneratedTable ---------- *)
let field_line lo hi impl =
  let f = kv_fields impl in
  let keys = List.map z_of_string (csv (get f "K")) in
  let wf = sortedb Z.ltb keys && keys <> [] in
  let ihits = Hashtbl.create 64 in
  let iok = ref true in
  List.iter (fun h -> match split_on ':' h with
      | [t; a; b; c] -> Hashtbl.replace ihits (ios t) (ios a, ios b, ios c) | _ -> iok := false) (csv (get f "H"));
  let imiss = (try ios (get f "M") with _ -> -1) in
  let hits = Buffer.create 256 and misses = ref 0 and first = ref true in
  let oi = ref (!iok) and om = ref true in
  for t = lo to min hi 65535 do
    let zt = z_of_int t in
    let r1 = strip (find_be keys zt) and r2 = strip (gt_find Z.ltb keys zt) in
    if r1 = None && r2 = None then incr misses
    else begin
      if not !first then Buffer.add_char hits ','; first := false;
      Buffer.add_string hits (Printf.sprintf "%d:%s:%s:%s" t (idx_str r1) (idx_str r2) (idx_str r2))
    end;
    if not (c12_lookup_ok zeq keys zt r1 && c12_lookup_ok zeq keys zt r2) then om := false;
    let (a, b, c) = (match Hashtbl.find_opt ihits t with Some x -> x | None -> (-1, -1, -1)) in
    if not (c12_lookup_ok zeq keys zt (idx_of_int a) && c12_lookup_ok zeq keys zt (idx_of_int b)
            && c12_lookup_ok zeq keys zt (idx_of_int c)) then oi := false
  done;
  if imiss <> (min hi 65535 - lo + 1) - Hashtbl.length ihits then oi := false;
  ((if wf then "" else "ILL-FORMED-TABLE ") ^ Printf.sprintf "K=%s H=%s M=%d" (get f "K") (Buffer.contents hits) !misses,
   !oi && wf, !om && wf)

(* ---------- msgtype table / reverse maps ---------- *)
let msg_line probes impl =
  let f = kv_fields impl in
  let keys = List.map zlist_of_hex (csv (get f "K")) in
  let wf = sortedb str_ltb keys in
  let ps = List.map zlist_of_hex probes in
  let rs = List.map (fun p -> strip (gt_find str_ltb keys p)) ps in
  let om = List.for_all2 (fun p r -> c12_lookup_ok list_eqb keys p r) ps rs in
  let ir = csv (get f "R") in
  let oi = List.length ir = List.length ps &&
           List.for_all2 (fun p r -> match split_on ':' r with
               | [a; b] -> c12_lookup_ok list_eqb keys p (idx_of_int (ios a)) && c12_lookup_ok list_eqb keys p (idx_of_int (ios b))
               | _ -> false) ps ir in
  ((if wf then "" else "ILL-FORMED-TABLE ") ^
   Printf.sprintf "K=%s R=%s" (get f "K") (String.concat "," (List.map (fun r -> idx_str r ^ ":" ^ idx_str r) rs)), oi && wf, om && wf)

let rec nodup = function [] -> true | x :: t -> not (List.mem x t) && nodup t

let reverse_line fields probes impl =
  let f = kv_fields impl in
  let names = List.map zlist_of_hex (csv (get f "K")) in
  let fnums = if fields then Array.of_list (List.map ios (csv (get f "N"))) else [||] in
  let wf = nodup names && (not fields || Array.length fnums = List.length names) in
  let ps = List.map zlist_of_hex probes in
  let rs = List.map (fun p -> reverse_find fields names p) ps in
  let ok p r = c12_lookup_ok list_eqb names p r in
  let fmt r = if fields then idx_str r ^ ":" ^ (match r with Some j -> soi fnums.(int_of_nat j) | None -> "0") else idx_str r in
  let ir = csv (get f "R") in
  let oi = List.length ir = List.length ps &&
           List.for_all2 (fun p r -> match split_on ':' r with
               | [a; b] when fields -> let i = ios a in ok p (idx_of_int i) && ios b = (if i >= 0 && i < Array.length fnums then fnums.(i) else 0)
               | [a] when not fields -> ok p (idx_of_int (ios a))
               | _ -> false) ps ir in
  ((if wf then "" else "ILL-FORMED-TABLE ") ^
   (if fields then Printf.sprintf "K=%s N=%s R=%s" (get f "K") (get f "N") (String.concat "," (List.map fmt rs))
    else Printf.sprintf "K=%s R=%s" (get f "K") (String.concat "," (List.map fmt rs))),
   oi && wf, List.for_all2 ok ps rs && wf)

(* ---------- presorted_set ---------- *)
let parse_kp s = match split_on '.' s with [k; p] -> (z_of_string k, z_of_string p) | _ -> failwith "BAD-CASE"
let parse_op (o : string) : op =
  let rest = String.sub o 1 (String.length o - 1) in
  match o.[0] with
  | 'f' -> OFind (z_of_string rest)
  | 'a' -> OFindA (z_of_string rest)
  | 't' -> OAt (nat_of_int (ios rest))
  | 'i' -> OInsert (parse_kp rest)
  | 'r' -> OInsertRange (List.map parse_kp (List.filter (fun x -> x <> "") (split_on '/' rest)))
  | 'c' -> OClear
  | _ -> failwith "BAD-CASE"
let onat = function None -> "-" | Some k -> soi (int_of_nat k)
let fmt_out (o : op) = function
  | RFind r -> onat r
  | RFindA (p, a) -> onat p ^ ":" ^ b01 a
  | RAt None -> "-"
  | RAt (Some (k, p)) -> string_of_z k ^ "." ^ string_of_z p
  | RInsert (ok, pos, stale) ->
    (* a valid iterator is shown as index=element it points to: the element just inserted *)
    b01 ok ^ "@" ^ (if stale then "STALE" else match pos, o with
        | Some i, OInsert (k, p) -> soi (int_of_nat i) ^ "=" ^ string_of_z k ^ "." ^ string_of_z p
        | _, _ -> onat pos)
  | RRange -> "R"
  | RClear -> "C"
let parse_out (o : op) (s : string) : out =
  let nato x = if x = "-" then None else Some (nat_of_int (ios x)) in
  match o with
  | OFind _ -> RFind (nato s)
  | OFindA _ -> (match split_on ':' s with [p; a] -> RFindA (nato p, a = "1") | _ -> failwith "out")
  | OAt _ -> if s = "-" then RAt None else RAt (Some (parse_kp s))
  | OInsert _ -> (match split_on '@' s with
      | [ok; "STALE"] -> RInsert (ok = "1", None, true)
      | [ok; p] ->
        (match split_on '=' p, o with
         | [i; e], OInsert what -> if parse_kp e = what then RInsert (ok = "1", nato i, false) else failwith "wrong element"
         | [i], _ -> RInsert (ok = "1", nato i, false)
         | _ -> failwith "out")
      | _ -> failwith "out")
  | OInsertRange _ -> if s = "R" then RRange else failwith "out"
  | OClear -> if s = "C" then RClear else failwith "out"

let presorted_line ctor opws impl =
  let ops = List.map parse_op opws in
  let (init, l0, hash) = (match split_on ':' ctor with
    | ["A"; res; tab] -> let t = List.map parse_kp (csv tab) in (ps_init_array t (nat_of_int (ios res)), t, false)
    | ["E"; sz; res] -> (ps_init_explicit (nat_of_int (ios sz)) (nat_of_int (ios res)), [], false)
    | ["H"; tab] -> let t = List.map parse_kp (csv tab) in (ps_init_hash t, t, true)
    | _ -> failwith "BAD-CASE") in
  let (ms, om) = (match ps_run init ops with
    | None -> ("FAULT", false)
    | Some (_, rs) ->
      (String.concat "," (List.map2 (fun o ((r, sz), rsz) ->
           fmt_out o r ^ "/" ^ soi (int_of_nat sz) ^ "/" ^ soi (int_of_nat rsz)) ops rs),
       c12_ps_ok l0 ops (List.map (fun ((r, sz), _) -> (r, sz)) rs))) in
  let oi = (try
      let toks = csv impl in
      List.length toks = List.length ops &&
      c12_ps_ok l0 ops (List.map2 (fun o t -> match split_on '/' t with
          | [r; sz; _] -> (parse_out o r, nat_of_int (ios sz)) | _ -> failwith "tok") ops toks)
    with _ -> false) in
  (ms, oi, om)

let () = run_protocol (fun case impl ->
  match words case with
  | op :: rest ->
    (match base_op op, rest with
     | "T", [_; lo; hi] -> trait_line (ios lo) (ios hi) impl
     | "TS", [tab; lo; hi] -> trait_line ~tab (ios lo) (ios hi) impl
     | "F", [lo; hi] -> field_line (ios lo) (ios hi) impl
     | "M", probes -> msg_line probes impl
     | "RF", probes -> reverse_line true probes impl
     | "RM", probes -> reverse_line false probes impl
     | ("PS" | "PG"), ctor :: ops -> presorted_line ctor ops impl
     | _ -> ("BAD-CASE", false, false))
  | _ -> ("BAD-CASE", false, false))
