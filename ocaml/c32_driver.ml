(* C32 driver.
   case : "<kind> <hex bytes> <tree dump | -> <queries | ->"
          kind t : the bytes are print_el of the tree (checked here with the extracted printer);
                   oracle c32_ok_tree = the result is exactly that tree and the exact find answers
          kind m : the bytes are another rendering of the tree (markup and other characters written as a mix of
                   named, decimal and hexadecimal references, chosen by the generator); same oracle
          kind b : arbitrary bytes; oracle c32_ok_bytes = a tree or a parse error
   impl result / model result: "T <dump> Q <answers>" | "E <hex what()>" | "SKIP xi:include" *)
let nl_of_string (s : string) : n list =
  let r = ref [] in
  for i = String.length s - 1 downto 0 do r := n_of_int (Char.code s.[i]) :: !r done; !r
let string_of_nl (l : n list) : string =
  let b = Buffer.create 256 in
  List.iter (fun x -> Buffer.add_char b (Char.chr (int_of_n x land 255))) l; Buffer.contents b
let nl_of_hexstr (s : string) : n list =
  let s = if s = "-" then "" else s in
  let k = String.length s / 2 in
  let r = ref [] in
  for i = k - 1 downto 0 do r := n_of_int (hexval s.[2*i] * 16 + hexval s.[2*i+1]) :: !r done; !r

let is_hex c = match c with '0'..'9' | 'a'..'f' -> true | _ -> false

(* el = '<' hex(tag) ['?' hex(decl)] ['=' hex(value)] {'@' hex(key) ':' hex(val)} {el} '>' *)
let parse_tree (s : string) : el =
  let pos = ref 0 in
  let len = String.length s in
  let peek () = if !pos < len then s.[!pos] else '\000' in
  let hexrun () =
    let st = !pos in
    while !pos < len && is_hex s.[!pos] do incr pos done;
    nl_of_hexstr (String.sub s st (!pos - st)) in
  let rec elem () =
    if peek () <> '<' then failwith "tree: expected <";
    incr pos;
    let tag = hexrun () in
    let decl = if peek () = '?' then (incr pos; Some (hexrun ())) else None in
    let value = if peek () = '=' then (incr pos; Some (hexrun ())) else None in
    let attrs = ref [] in
    while peek () = '@' do
      incr pos;
      let k = hexrun () in
      if peek () <> ':' then failwith "tree: expected :";
      incr pos;
      let v = hexrun () in
      attrs := (k, v) :: !attrs
    done;
    let kids = ref [] in
    while peek () = '<' do kids := elem () :: !kids done;
    if peek () <> '>' then failwith "tree: expected >";
    incr pos;
    El (tag, decl, value, List.rev !attrs, List.rev !kids) in
  let t = elem () in
  if !pos <> len then failwith "tree: trailing text";
  t

(* query = <1|A>:<r.i.j>:<hex path>[:<hex atag | ~>:<hex aval | ~>[:<hex delimiter>]] *)
let parse_query (q : string) : query =
  let f = split_on ':' q in
  let addr a =
    match split_on '.' a with
    | "r" :: rest -> List.map (fun x -> nat_of_int (int_of_string x)) rest
    | _ -> failwith "query: address" in
  let opt x = if x = "~" then None else Some (nl_of_hexstr x) in
  let mk m a p k v d =
    { q_first = (m = "1"); q_start = addr a; q_path = nl_of_hexstr p; q_delim = d; q_attr = (k, v) } in
  match f with
  | [m; a; p] -> mk m a p None None (n_of_int 47)
  | [m; a; p; k; v] -> mk m a p (opt k) (opt v) (n_of_int 47)
  | [m; a; p; k; v; d] ->
    (match nl_of_hexstr d with [dc] -> mk m a p (opt k) (opt v) dc | _ -> failwith "query: delimiter")
  | _ -> failwith "query: fields"

let () = run_protocol (fun case impl ->
  match words case with
  | [kind; hx; tree; queries] ->
    let bytes = nl_of_hexstr hx in
    let qs = if queries = "-" then [] else List.map parse_query (split_on ';' queries) in
    let m = string_of_nl (run_doc bytes qs) in
    let implb = nl_of_string impl in
    if kind = "t" || kind = "m" then begin
      let t = parse_tree tree in
      if kind = "t" && print_el t <> bytes then ("BAD-CASE bytes are not print_el of the tree", false, false)
      else (m, c32_ok_tree t qs implb, c32_ok_tree t qs (nl_of_string m))
    end else if kind = "b" then
      (m, c32_ok_bytes implb, c32_ok_bytes (nl_of_string m))
    else ("BAD-CASE kind", false, false)
  | _ -> ("BAD-CASE", false, false))
