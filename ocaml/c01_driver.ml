(* ======================================================================================
   CODEC COMMON BLOCK  (copy verbatim into c0X_driver.ml of C01, C03..C06, C11)
   Needs from the extracted model: the Codec types and
     cstr find_be find_msg ftype_of mk_message create_group add_field find_add_group group_add
     real_caps factory msg_encode msg_encode_str render_default
   argv.(1..) = "<schema>=<path of the metadata dump written by `h_codec --meta`>" (see
   coq/Codec/READY.md); a case line may start with "@<schema> " to select a schema other than
   the first.
   ====================================================================================== *)
let bit v k = (v lsr k) land 1 = 1
let mk_trait fnum ftype pos comp flags : trait =
  { t_fnum = n_of_int fnum; t_ftype = n_of_int ftype; t_pos = n_of_int pos; t_comp = n_of_int comp;
    t_mand = bit flags 0; t_present = bit flags 1; t_haspos = bit flags 2; t_group = bit flags 3;
    t_iscomp = bit flags 4; t_suppress = bit flags 5; t_auto = bit flags 6 }

let nlist_of_string s = List.map n_of_int (bytes_of_string s)
let string_of_nlist l = string_of_bytes (List.map int_of_n l)

(* metadata file -> ctx *)
let load_ctx (path : string) (render : n -> n list -> n list) : ctx =
  let ic = open_in path in
  let fields = ref [] and msgs = ref [] and begin_s = ref [] in
  let traits : (string, trait list) Hashtbl.t = Hashtbl.create 64 in
  let groups : (string, (int * string * bool) list) Hashtbl.t = Hashtbl.create 64 in
  let inits : (string, (n * (n * n list)) list) Hashtbl.t = Hashtbl.create 4 in
  let add tbl k v = Hashtbl.replace tbl k ((try Hashtbl.find tbl k with Not_found -> []) @ [v]) in
  (try
    while true do
      let line = input_line ic in
      match words line with
      | ["V"; _; bs; _] -> begin_s := nlist_of_hex bs
      | ["F"; fnum; ftype; _] -> fields := (n_of_int (int_of_string fnum), n_of_int (int_of_string ftype)) :: !fields
      | ["M"; mt; _; admin] -> msgs := (mt, admin = "1") :: !msgs
      | ["T"; owner; fnum; ftype; pos; comp; flags] ->
          add traits owner (mk_trait (int_of_string fnum) (int_of_string ftype) (int_of_string pos)
                              (int_of_string comp) (int_of_string flags))
      | ["G"; owner; fnum; "->"; sub; deep] -> add groups owner (int_of_string fnum, sub, deep = "1")
      | ["I"; owner; pos; fnum; v] ->
          add inits owner (n_of_int (int_of_string pos), (n_of_int (int_of_string fnum), nlist_of_hex v))
      | _ -> ()
    done
  with End_of_file -> close_in ic);
  let rec gm owner : gmeta =
    let ts = (try Hashtbl.find traits owner with Not_found -> []) in
    let gs = (try Hashtbl.find groups owner with Not_found -> []) in
    let deep = List.for_all (fun (_, _, d) -> d) gs in
    if not deep && List.exists (fun (_, _, d) -> d) gs then failwith ("mixed deep flags under " ^ owner);
    GM (ts, List.map (fun (f, sub, _) -> (n_of_int f, gm sub)) gs, deep) in
  let init owner = (try Hashtbl.find inits owner with Not_found -> []) in
  { c_fields = List.rev !fields;
    c_msgs = List.rev_map (fun (mt, admin) -> { md_type = nlist_of_string mt; md_admin = admin; md_meta = gm mt }) !msgs;
    c_header = gm "header"; c_trailer = gm "trailer";
    c_hdr_init = init "header"; c_trl_init = init "trailer";
    c_begin = !begin_s; c_render = render }

(* canonical result vocabulary (identical to harness/h_codec.cpp) *)
let string_of_exc (e : exc) : string =
  match e with
  | EInvalidMessage -> "EXC InvalidMessage"
  | EDuplicateField t -> "EXC DuplicateField " ^ string_of_int (int_of_n t)
  | EUnknownField t -> "EXC UnknownField " ^ string_of_int (int_of_n t)
  | EMissingMandatory t -> "EXC MissingMandatoryField " ^ string_of_int (int_of_n t)
  | EFixedWidth -> "EXC MissingMandatoryField fixedwidth"
  | EValueTooLarge -> "EXC f8Exception ValueTooLarge"
  | EMissingGroupField t -> "EXC MissingRepeatingGroupField " ^ string_of_int (int_of_n t)
  | EInvalidGroup t -> "EXC InvalidRepeatingGroup " ^ string_of_int (int_of_n t)
  | EBadCheckSum v -> "EXC BadCheckSum " ^ string_of_int (int_of_n v)
  | EInvalidField t -> "EXC InvalidField " ^ string_of_int (int_of_n t)
  | EMissingComponent -> "EXC MissingMessageComponent"
let string_of_res (f : 'a -> string) (r : 'a res) : string =
  match r with
  | Ok a -> "OK " ^ f a
  | Exc e -> string_of_exc e
  | OOB s -> "OOB " ^ string_of_int (int_of_n s)
  | Diverge -> "HANG"
  | Fuel -> "MODEL-FUEL"

exception Bad_case of string
exception Model_stop of string        (* a non-Ok model result while building *)
let unres (r : 'a res) : 'a = match r with Ok a -> a | r -> raise (Model_stop (string_of_res (fun _ -> "") r))

(* msgspec parser + construction through the model's API functions, mirroring h_codec.cpp:
   add_field(create_field(fnum, text)); '[' = find_add_group; each '(' ')' = create_group(true) + add *)
let build_msg (c : ctx) (spec : string) : message =
  let parts = Array.of_list (split_on ';' spec) in
  if Array.length parts <> 4 then raise (Bad_case "spec: 4 parts expected");
  let md = (match find_msg c.c_msgs (nlist_of_string parts.(0)) with
            | Some md -> md | None -> raise (Bad_case "spec: unknown msgtype")) in
  let msg = mk_message c md true in
  let fill_part (s : string) (mb0 : mbase) : mbase =
    let i = ref 0 in
    let len = String.length s in
    let peek () = if !i < len then s.[!i] else '\000' in
    let number () =
      let j = !i in
      while (match peek () with '0'..'9' -> true | _ -> false) do incr i done;
      if !i = j then raise (Bad_case "spec: number expected");
      int_of_string (String.sub s j (!i - j)) in
    let hexval () =
      if peek () = '-' then (incr i; [])
      else begin
        let j = !i in
        while (match peek () with '0'..'9' | 'a'..'f' | 'A'..'F' -> true | _ -> false) do incr i done;
        nlist_of_hex (String.sub s j (!i - j))
      end in
    let rec fill (mb : mbase) : mbase =
      if !i < len && peek () <> ')' then begin
        let fnum = n_of_int (number ()) in
        if peek () <> '=' then raise (Bad_case "spec: = expected");
        incr i;
        (* "~hex": the value is handed to Field<f8String>(const f8String&) with its length (NULs survive);
           plain hex goes through create_field(fnum, C string) *)
        let raw = (peek () = '~') in
        if raw then incr i;
        let v = (let h = hexval () in if raw then h else cstr h) in
        if find_be c.c_fields fnum = None then raise (Bad_case "spec: no such field");
        let mb1 = unres (add_field mb fnum v) in
        let mb2 =
          if peek () = '[' then begin
            incr i;
            let (m1, g) = unres (find_add_group mb1 fnum) in
            let cur = ref m1 in
            while peek () = '(' do
              incr i;
              let el = fill (create_group g true) in
              if peek () <> ')' then raise (Bad_case "spec: ) expected");
              incr i;
              cur := group_add !cur fnum el
            done;
            if peek () <> ']' then raise (Bad_case "spec: ] expected");
            incr i;
            !cur
          end else mb1 in
        if peek () = ',' then incr i;
        fill mb2
      end else mb in
    fill mb0 in
  let h = fill_part parts.(1) msg.m_hdr in
  let b = fill_part parts.(2) msg.m_body in
  let t = fill_part parts.(3) msg.m_trl in
  { m_type = msg.m_type; m_hdr = h; m_body = b; m_trl = t }

(* canonical dump of an object, same text as dump_mb / dump_msg of h_codec.cpp *)
let rec dump_mb (c : ctx) (b : Buffer.t) (m : mbase) : unit =
  let MB (fp, _, fields, pos, groups, unknown) = m in
  let printed f v =
    let dflt = (match find_trait fp f with Some tr -> tr.t_ftype | None -> n_of_int 15) in
    hex_of_nlist (c.c_render (ftype_of c f dflt) v) in
  let sep first = if !first then first := false else Buffer.add_char b ',' in
  Buffer.add_string b "{p:";
  let first = ref true in
  List.iter (fun (p, (f, v)) -> sep first;
    Buffer.add_string b (Printf.sprintf "%d:%d=%s" (int_of_n p) (int_of_n f) (printed f v))) pos;
  Buffer.add_string b ";f:";
  let first = ref true in
  List.iter (fun (f, v) -> sep first;
    Buffer.add_string b (Printf.sprintf "%d=%s" (int_of_n f) (printed f v))) fields;
  Buffer.add_string b ";g:";
  let first = ref true in
  List.iter (fun (f, els) -> sep first;
    Buffer.add_string b (Printf.sprintf "%d[" (int_of_n f));
    List.iter (dump_mb c b) els;
    Buffer.add_char b ']') groups;
  Buffer.add_string b (";u:" ^ hex_of_nlist unknown ^ ";pr:");
  let first = ref true in
  List.iter (fun tr -> if tr.t_present then (sep first; Buffer.add_string b (string_of_int (int_of_n tr.t_fnum)))) fp;
  Buffer.add_string b ";su:";
  let first = ref true in
  List.iter (fun tr -> if tr.t_suppress then (sep first; Buffer.add_string b (string_of_int (int_of_n tr.t_fnum)))) fp;
  Buffer.add_char b '}'
let dump_msg (c : ctx) (m : message) : string =
  let b = Buffer.create 1024 in
  Buffer.add_string b ("T=" ^ string_of_nlist m.m_type ^ " H");
  dump_mb c b m.m_hdr;
  Buffer.add_string b " B";
  dump_mb c b m.m_body;
  Buffer.add_string b " T";
  dump_mb c b m.m_trl;
  Buffer.contents b

let parse_mode (s : string) : bool * bool =      (* (permissive, no_chksum) *)
  (String.contains s 'p', String.contains s 'n')

(* the operations of h_codec.cpp on the model; result strings in the harness vocabulary.
   [enc_bytes] returns also the raw model results for the oracles. *)
let op_enc (c : ctx) (m : message) : (n list * message) res = msg_encode_str c real_caps m
let op_dec (c : ctx) (mode : string) (bytes : n list) : message res =
  let (perm, nock) = parse_mode mode in factory c real_caps bytes nock perm

let run_op (c : ctx) (case : string) : string =
  try
    match words case with
    | ["ENC"; spec] -> string_of_res (fun (b, _) -> hex_of_nlist b) (op_enc c (build_msg c spec))
    | ["ENC2"; spec] ->
        (match op_enc c (build_msg c spec) with
         | Ok (b1, m1) -> string_of_res (fun (b2, _) -> hex_of_nlist b1 ^ " " ^ hex_of_nlist b2) (op_enc c m1)
         | r -> string_of_res (fun _ -> "") r)
    | ["DEC"; mode; hx] -> string_of_res (dump_msg c) (op_dec c mode (nlist_of_hex hx))
    | ["REENC"; mode; hx] ->
        (match op_dec c mode (nlist_of_hex hx) with
         | Ok m -> string_of_res (fun (b, _) -> hex_of_nlist b) (op_enc c m)
         | r -> string_of_res (fun _ -> "") r)
    | ["RT"; mode; spec] ->
        (match op_enc c (build_msg c spec) with
         | Ok (b1, _) ->
             "OK " ^ hex_of_nlist b1 ^ " | " ^
             (match op_dec c mode b1 with
              | Ok m -> "OK " ^ dump_msg c m ^ " | " ^ string_of_res (fun (b, _) -> hex_of_nlist b) (op_enc c m)
              | r -> string_of_res (fun _ -> "") r)
         | r -> string_of_res (fun _ -> "") r)
    | _ -> "BAD-CASE unknown op"
  with
  | Bad_case s -> "BAD-CASE " ^ s
  | Model_stop s -> s

(* schema table from argv; [with_schema case f] strips an "@name " prefix and runs f on that ctx.
   [render_hook]: the per-type rendering put into every ctx (a driver may point it at a table of
   real conversions reported by the harness; default = the model's render_default) *)
let render_hook : (n -> n list -> n list) ref = ref render_default
let ctx_table : (string * ctx Lazy.t) list Lazy.t = lazy (
  List.filter_map (fun a ->
    match String.index_opt a '=' with
    | Some i -> let name = String.sub a 0 i and path = String.sub a (i + 1) (String.length a - i - 1) in
                Some (name, lazy (load_ctx path (fun ty v -> !render_hook ty v)))
    | None -> None) (List.tl (Array.to_list Sys.argv)))
let with_schema (case : string) (f : ctx -> string -> 'a) : 'a =
  let tbl = Lazy.force ctx_table in
  if String.length case > 0 && case.[0] = '@' then begin
    let sp = (try String.index case ' ' with Not_found -> String.length case) in
    let name = String.sub case 1 (sp - 1) in
    let rest = if sp < String.length case then String.sub case (sp + 1) (String.length case - sp - 1) else "" in
    f (Lazy.force (List.assoc name tbl)) rest
  end else f (Lazy.force (snd (List.hd tbl))) case
(* ============================== END OF CODEC COMMON BLOCK ============================== *)

(* C01 driver.  case: "RT <mode> <msgspec> [<render table>]"; the optional 4th word lists real
   conversions reported by the harness for non-canonical texts: ty:texthex=renderedhex,...
   Oracle: c01_ok (built content, decoded content from the dump, first and second encoding). *)

(* ---- the built content, straight from the msgspec (no model function involved) *)
let content_of_spec (spec : string) : content =
  let parts = Array.of_list (split_on ';' spec) in
  if Array.length parts <> 4 then raise (Bad_case "spec: 4 parts expected");
  let parse (s : string) : cnode list =
    let i = ref 0 and len = String.length s in
    let peek () = if !i < len then s.[!i] else '\000' in
    let rec fields () : cnode list =
      if !i < len && peek () <> ')' then begin
        let j = !i in
        while (match peek () with '0'..'9' -> true | _ -> false) do incr i done;
        let f = n_of_int (int_of_string (String.sub s j (!i - j))) in
        incr i;
        let v = if peek () = '-' then (incr i; []) else begin
          let j = !i in
          while (match peek () with '0'..'9' | 'a'..'f' | 'A'..'F' -> true | _ -> false) do incr i done;
          nlist_of_hex (String.sub s j (!i - j)) end in
        let els = ref [] in
        if peek () = '[' then begin
          incr i;
          while peek () = '(' do incr i; let e = fields () in incr i; els := e :: !els done;
          incr i
        end;
        if peek () = ',' then incr i;
        let x = CN (f, cstr v, List.rev !els) in
        x :: fields ()
      end else [] in
    fields () in
  { ct_type = nlist_of_string parts.(0); ct_hdr = parse parts.(1); ct_body = parse parts.(2); ct_trl = parse parts.(3) }

(* ---- the decoded content, from a dump "T=<mt> H{..} B{..} T{..}" *)
let content_of_dump (d : string) : content =
  let i = ref 0 and len = String.length d in
  let peek () = if !i < len then d.[!i] else '\000' in
  let expect c = if peek () <> c then raise (Bad_case (Printf.sprintf "dump: %c expected at %d" c !i)); incr i in
  let until stop = let j = !i in while !i < len && not (List.mem d.[!i] stop) do incr i done; String.sub d j (!i - j) in
  let rec part () : cnode list =
    expect '{'; expect 'p'; expect ':';
    let entries = ref [] in
    while peek () <> ';' do
      let _key = until [':'] in expect ':';
      let f = int_of_string (until ['=']) in expect '=';
      let v = nlist_of_hex (until [','; ';']) in
      if peek () = ',' then incr i;
      entries := (f, v) :: !entries
    done;
    expect ';'; expect 'f'; expect ':'; ignore (until [';']); expect ';'; expect 'g'; expect ':';
    let groups = ref [] in
    while peek () <> ';' do
      let f = int_of_string (until ['[']) in expect '[';
      let els = ref [] in
      while peek () = '{' do els := part () :: !els done;
      expect ']';
      if peek () = ',' then incr i;
      groups := (f, List.rev !els) :: !groups
    done;
    expect ';'; ignore (until ['}']); expect '}';
    List.rev_map (fun (f, v) -> CN (n_of_int f, v, (try List.assoc f !groups with Not_found -> []))) !entries in
  expect 'T'; expect '=';
  let mt = until [' '] in
  expect ' '; expect 'H'; let h = part () in
  expect ' '; expect 'B'; let b = part () in
  expect ' '; expect 'T'; let t = part () in
  { ct_type = nlist_of_string mt; ct_hdr = h; ct_body = b; ct_trl = t }

let load_table (s : string) : unit =
  let tbl = Hashtbl.create 8 in
  List.iter (fun e ->
    match String.index_opt e ':', String.index_opt e '=' with
    | Some a, Some b ->
        let ty = int_of_string (String.sub e 0 a) in
        let t = String.sub e (a + 1) (b - a - 1) and r = String.sub e (b + 1) (String.length e - b - 1) in
        Hashtbl.replace tbl (ty, t) (nlist_of_hex r)
    | _ -> ()) (split_on ',' s);
  render_hook := (fun ty v ->
    match Hashtbl.find_opt tbl (int_of_n ty, hex_of_nlist v) with
    | Some r -> r
    | None -> render_default ty v)

let c01_oracle (spec : string) (r : string) : bool =
  match List.map String.trim (split_on '|' r) with
  | [a; b; cc] ->
      (match words a, words cc with
       | ["OK"; h1], ["OK"; h2] when String.length b > 3 && String.sub b 0 3 = "OK " ->
           (try c01_ok (content_of_spec spec) (content_of_dump (String.sub b 3 (String.length b - 3)))
                  (nlist_of_hex h1) (nlist_of_hex h2)
            with _ -> false)
       | _ -> false)
  | _ -> false

(* the hypotheses of theorem c01_roundtrip_groups_partial on the object built from the spec
   (c01_flat, the hypothesis of the older flat theorem, implies c01_groups on every case seen) *)
let hyp_of (c : ctx) (spec : string) : bool =
  let m = build_msg c spec in wf_msg c m && fresh m && vals_canonical c m && c01_groups c m

let () = run_protocol (fun case0 impl -> with_schema case0 (fun c case ->
  match words case with
  | ["HYP"; spec] ->
      render_hook := render_default;
      let h = (try hyp_of c spec with _ -> false) in
      ((if h then "1" else "0"), impl = "1", h)
  | "RT" :: mode :: spec :: rest ->
      render_hook := render_default;
      (match rest with [t] -> load_table t | _ -> ());
      let m = run_op c ("RT " ^ mode ^ " " ^ spec) in
      let om = c01_oracle spec m in
      (* the theorem, checked on every case: hypotheses => the model's round trip passes c01_ok *)
      let m = (try if mode = "s" && not om && hyp_of c spec then "THEOREM-CONTRADICTED " ^ m else m with _ -> m) in
      (m, c01_oracle spec impl, om)
  | _ -> ("BAD-CASE", false, false)))
