(* C29 driver.
   case: "<L|P> <name> <rotnum> <flags> <ops> <files>"      (see harness/h_c29.cpp)
   impl result: "<listing>|<listing>|..." (one sorted listing "n=c,n=c" or "-" per op),
                "OOB" (vector index out of range), or anything else (fails the oracle) *)
let ascii_of_char (ch : char) : ascii =
  let c = Char.code ch in
  let b i = (c lsr i) land 1 = 1 in
  Ascii (b 0, b 1, b 2, b 3, b 4, b 5, b 6, b 7)
let char_of_ascii (a : ascii) : char =
  match a with
  | Ascii (b0, b1, b2, b3, b4, b5, b6, b7) ->
    let v b i = if b then 1 lsl i else 0 in
    Char.chr (v b0 0 + v b1 1 + v b2 2 + v b3 3 + v b4 4 + v b5 5 + v b6 6 + v b7 7)
let str_of (s : string) : ascii list = List.init (String.length s) (fun i -> ascii_of_char s.[i])
let of_str (l : ascii list) : string = String.init (List.length l) (fun i -> char_of_ascii (List.nth l i))

exception Bad

let parse_listing (s : string) : (ascii list * ascii list) list =
  if s = "-" then []
  else List.map (fun ent ->
      match String.index_opt ent '=' with
      | None -> raise Bad
      | Some i -> (str_of (String.sub ent 0 i), str_of (String.sub ent (i + 1) (String.length ent - i - 1))))
    (split_on ',' s)

let show_listing (d : (ascii list * ascii list) list) : string =
  if d = [] then "-"
  else
    let l = List.map (fun (n, c) -> (of_str n, of_str c)) d in
    let l = List.sort (fun (a, _) (b, _) -> compare a b) l in
    String.concat "," (List.map (fun (n, c) -> n ^ "=" ^ c) l)

let show_outcome (r : outcome) : string =
  match r with
  | Trace [] -> "-"
  | Trace tr -> String.concat "|" (List.map show_listing tr)
  | Died -> "OOB"
  | NoFuel -> "NOFUEL"

let parse_ops (kind : string) (s : string) : op list =
  List.init (String.length s) (fun i ->
    match kind, s.[i] with
    | "L", 'c' -> if i = 0 then OpRotate false else raise Bad
    | "L", 'n' -> if i > 0 then OpRotate false else raise Bad
    | "L", 'f' -> if i > 0 then OpRotate true else raise Bad
    | "L", ('w' | 'v') -> if i > 0 then OpWrite [ascii_of_char s.[i]] else raise Bad
    | "P", 'P' -> OpInit true
    | "P", 'p' -> OpInit false
    | "P", ('w' | 'v') -> OpStoreWrite [ascii_of_char s.[i]]
    | _ -> raise Bad)

let () = run_protocol (fun case impl ->
  match words case with
  | [kind; name; rot; flags; ops; files] ->
    (try
      let c = { c_name = str_of name; c_rotnum = (match z_of_string rot with Zpos p -> Npos p | _ -> N0);
                c_append = String.contains flags 'a'; c_compress = String.contains flags 'c' } in
      let ops = parse_ops kind ops in
      let d0 = parse_listing files in
      let r = run c ops d0 in
      let om = c29_ok c d0 ops r in
      let ir =
        if impl = "OOB" then Some Died
        else if ops = [] then (if impl = "-" then Some (Trace []) else None)
        else (try Some (Trace (List.map parse_listing (split_on '|' impl))) with Bad -> None) in
      let oi = (match ir with Some t -> c29_ok c d0 ops t | None -> false) in
      (show_outcome r, oi, om)
    with Bad -> ("BAD-CASE", false, false))
  | _ -> ("BAD-CASE", false, false))
