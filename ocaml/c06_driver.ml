(* ======================================================================================
   CODEC COMMON BLOCK  (copy verbatim into c0X_driver.ml of C01, C03..C06, C11)
   Needs from the extracted model: the Codec types and
     cstr find_be find_msg ftype_of mk_message create_group add_field find_add_group group_add
     real_caps factory msg_encode msg_encode_str render_default
   argv.(1..) = "<schema>=<path of the metadata dump written by `h_codec --meta`>" (see
   coq/Codec/READY.md); a case line may start with "@<schema> " to select a schema other than
   the first.
   ====================================================================================== *)
let bit v k = (v lsr k) land 1 = 1
let mk_trait fnum ftype pos comp flags : trait =
  { t_fnum = n_of_int fnum; t_ftype = n_of_int ftype; t_pos = n_of_int pos; t_comp = n_of_int comp;
    t_mand = bit flags 0; t_present = bit flags 1; t_haspos = bit flags 2; t_group = bit flags 3;
    t_iscomp = bit flags 4; t_suppress = bit flags 5; t_auto = bit flags 6 }

let nlist_of_string s = List.map n_of_int (bytes_of_string s)
let string_of_nlist l = string_of_bytes (List.map int_of_n l)

(* metadata file -> ctx *)
let load_ctx (path : string) (render : n -> n list -> n list) : ctx =
  let ic = open_in path in
  let fields = ref [] and msgs = ref [] and begin_s = ref [] in
  let traits : (string, trait list) Hashtbl.t = Hashtbl.create 64 in
  let groups : (string, (int * string * bool) list) Hashtbl.t = Hashtbl.create 64 in
  let inits : (string, (n * (n * n list)) list) Hashtbl.t = Hashtbl.create 4 in
  let add tbl k v = Hashtbl.replace tbl k ((try Hashtbl.find tbl k with Not_found -> []) @ [v]) in
  (try
    while true do
      let line = input_line ic in
      match words line with
      | ["V"; _; bs; _] -> begin_s := nlist_of_hex bs
      | ["F"; fnum; ftype; _] -> fields := (n_of_int (int_of_string fnum), n_of_int (int_of_string ftype)) :: !fields
      | ["M"; mt; _; admin] -> msgs := (mt, admin = "1") :: !msgs
      | ["T"; owner; fnum; ftype; pos; comp; flags] ->
          add traits owner (mk_trait (int_of_string fnum) (int_of_string ftype) (int_of_string pos)
                              (int_of_string comp) (int_of_string flags))
      | ["G"; owner; fnum; "->"; sub; deep] -> add groups owner (int_of_string fnum, sub, deep = "1")
      | ["I"; owner; pos; fnum; v] ->
          add inits owner (n_of_int (int_of_string pos), (n_of_int (int_of_string fnum), nlist_of_hex v))
      | _ -> ()
    done
  with End_of_file -> close_in ic);
  let rec gm owner : gmeta =
    let ts = (try Hashtbl.find traits owner with Not_found -> []) in
    let gs = (try Hashtbl.find groups owner with Not_found -> []) in
    let deep = List.for_all (fun (_, _, d) -> d) gs in
    if not deep && List.exists (fun (_, _, d) -> d) gs then failwith ("mixed deep flags under " ^ owner);
    GM (ts, List.map (fun (f, sub, _) -> (n_of_int f, gm sub)) gs, deep) in
  let init owner = (try Hashtbl.find inits owner with Not_found -> []) in
  { c_fields = List.rev !fields;
    c_msgs = List.rev_map (fun (mt, admin) -> { md_type = nlist_of_string mt; md_admin = admin; md_meta = gm mt }) !msgs;
    c_header = gm "header"; c_trailer = gm "trailer";
    c_hdr_init = init "header"; c_trl_init = init "trailer";
    c_begin = !begin_s; c_render = render }

(* canonical result vocabulary (identical to harness/h_codec.cpp) *)
let string_of_exc (e : exc) : string =
  match e with
  | EInvalidMessage -> "EXC InvalidMessage"
  | EDuplicateField t -> "EXC DuplicateField " ^ string_of_int (int_of_n t)
  | EUnknownField t -> "EXC UnknownField " ^ string_of_int (int_of_n t)
  | EMissingMandatory t -> "EXC MissingMandatoryField " ^ string_of_int (int_of_n t)
  | EFixedWidth -> "EXC MissingMandatoryField fixedwidth"
  | EValueTooLarge -> "EXC f8Exception ValueTooLarge"
  | EMissingGroupField t -> "EXC MissingRepeatingGroupField " ^ string_of_int (int_of_n t)
  | EInvalidGroup t -> "EXC InvalidRepeatingGroup " ^ string_of_int (int_of_n t)
  | EBadCheckSum v -> "EXC BadCheckSum " ^ string_of_int (int_of_n v)
  | EInvalidField t -> "EXC InvalidField " ^ string_of_int (int_of_n t)
  | EMissingComponent -> "EXC MissingMessageComponent"
let string_of_res (f : 'a -> string) (r : 'a res) : string =
  match r with
  | Ok a -> "OK " ^ f a
  | Exc e -> string_of_exc e
  | OOB s -> "OOB " ^ string_of_int (int_of_n s)
  | Diverge -> "HANG"
  | Fuel -> "MODEL-FUEL"

exception Bad_case of string
exception Model_stop of string        (* a non-Ok model result while building *)
let unres (r : 'a res) : 'a = match r with Ok a -> a | r -> raise (Model_stop (string_of_res (fun _ -> "") r))

(* msgspec parser + construction through the model's API functions, mirroring h_codec.cpp:
   add_field(create_field(fnum, text)); '[' = find_add_group; each '(' ')' = create_group(true) + add *)
let build_msg (c : ctx) (spec : string) : message =
  let parts = Array.of_list (split_on ';' spec) in
  if Array.length parts <> 4 then raise (Bad_case "spec: 4 parts expected");
  let md = (match find_msg c.c_msgs (nlist_of_string parts.(0)) with
            | Some md -> md | None -> raise (Bad_case "spec: unknown msgtype")) in
  let msg = mk_message c md true in
  let fill_part (s : string) (mb0 : mbase) : mbase =
    let i = ref 0 in
    let len = String.length s in
    let peek () = if !i < len then s.[!i] else '\000' in
    let number () =
      let j = !i in
      while (match peek () with '0'..'9' -> true | _ -> false) do incr i done;
      if !i = j then raise (Bad_case "spec: number expected");
      int_of_string (String.sub s j (!i - j)) in
    let hexval () =
      if peek () = '-' then (incr i; [])
      else begin
        let j = !i in
        while (match peek () with '0'..'9' | 'a'..'f' | 'A'..'F' -> true | _ -> false) do incr i done;
        nlist_of_hex (String.sub s j (!i - j))
      end in
    let rec fill (mb : mbase) : mbase =
      if !i < len && peek () <> ')' then begin
        let fnum = n_of_int (number ()) in
        if peek () <> '=' then raise (Bad_case "spec: = expected");
        incr i;
        let v = cstr (hexval ()) in                 (* create_field takes a C string *)
        if find_be c.c_fields fnum = None then raise (Bad_case "spec: no such field");
        let mb1 = unres (add_field mb fnum v) in
        let mb2 =
          if peek () = '[' then begin
            incr i;
            let (m1, g) = unres (find_add_group mb1 fnum) in
            let cur = ref m1 in
            while peek () = '(' do
              incr i;
              let el = fill (create_group g true) in
              if peek () <> ')' then raise (Bad_case "spec: ) expected");
              incr i;
              cur := group_add !cur fnum el
            done;
            if peek () <> ']' then raise (Bad_case "spec: ] expected");
            incr i;
            !cur
          end else mb1 in
        if peek () = ',' then incr i;
        fill mb2
      end else mb in
    fill mb0 in
  let h = fill_part parts.(1) msg.m_hdr in
  let b = fill_part parts.(2) msg.m_body in
  let t = fill_part parts.(3) msg.m_trl in
  { m_type = msg.m_type; m_hdr = h; m_body = b; m_trl = t }

(* canonical dump of an object, same text as dump_mb / dump_msg of h_codec.cpp *)
let rec dump_mb (c : ctx) (b : Buffer.t) (m : mbase) : unit =
  let MB (fp, _, fields, pos, groups, unknown) = m in
  let printed f v =
    let dflt = (match find_trait fp f with Some tr -> tr.t_ftype | None -> n_of_int 15) in
    hex_of_nlist (c.c_render (ftype_of c f dflt) v) in
  let sep first = if !first then first := false else Buffer.add_char b ',' in
  Buffer.add_string b "{p:";
  let first = ref true in
  List.iter (fun (p, (f, v)) -> sep first;
    Buffer.add_string b (Printf.sprintf "%d:%d=%s" (int_of_n p) (int_of_n f) (printed f v))) pos;
  Buffer.add_string b ";f:";
  let first = ref true in
  List.iter (fun (f, v) -> sep first;
    Buffer.add_string b (Printf.sprintf "%d=%s" (int_of_n f) (printed f v))) fields;
  Buffer.add_string b ";g:";
  let first = ref true in
  List.iter (fun (f, els) -> sep first;
    Buffer.add_string b (Printf.sprintf "%d[" (int_of_n f));
    List.iter (dump_mb c b) els;
    Buffer.add_char b ']') groups;
  Buffer.add_string b (";u:" ^ hex_of_nlist unknown ^ ";pr:");
  let first = ref true in
  List.iter (fun tr -> if tr.t_present then (sep first; Buffer.add_string b (string_of_int (int_of_n tr.t_fnum)))) fp;
  Buffer.add_string b ";su:";
  let first = ref true in
  List.iter (fun tr -> if tr.t_suppress then (sep first; Buffer.add_string b (string_of_int (int_of_n tr.t_fnum)))) fp;
  Buffer.add_char b '}'
let dump_msg (c : ctx) (m : message) : string =
  let b = Buffer.create 1024 in
  Buffer.add_string b ("T=" ^ string_of_nlist m.m_type ^ " H");
  dump_mb c b m.m_hdr;
  Buffer.add_string b " B";
  dump_mb c b m.m_body;
  Buffer.add_string b " T";
  dump_mb c b m.m_trl;
  Buffer.contents b

let parse_mode (s : string) : bool * bool =      (* (permissive, no_chksum) *)
  (String.contains s 'p', String.contains s 'n')

(* the operations of h_codec.cpp on the model; result strings in the harness vocabulary.
   [enc_bytes] returns also the raw model results for the oracles. *)
let op_enc (c : ctx) (m : message) : (n list * message) res = msg_encode_str c real_caps m
let op_dec (c : ctx) (mode : string) (bytes : n list) : message res =
  let (perm, nock) = parse_mode mode in factory c real_caps bytes nock perm

let run_op (c : ctx) (case : string) : string =
  try
    match words case with
    | ["ENC"; spec] -> string_of_res (fun (b, _) -> hex_of_nlist b) (op_enc c (build_msg c spec))
    | ["ENC2"; spec] ->
        (match op_enc c (build_msg c spec) with
         | Ok (b1, m1) -> string_of_res (fun (b2, _) -> hex_of_nlist b1 ^ " " ^ hex_of_nlist b2) (op_enc c m1)
         | r -> string_of_res (fun _ -> "") r)
    | ["DEC"; mode; hx] -> string_of_res (dump_msg c) (op_dec c mode (nlist_of_hex hx))
    | ["REENC"; mode; hx] ->
        (match op_dec c mode (nlist_of_hex hx) with
         | Ok m -> string_of_res (fun (b, _) -> hex_of_nlist b) (op_enc c m)
         | r -> string_of_res (fun _ -> "") r)
    | ["RT"; mode; spec] ->
        (match op_enc c (build_msg c spec) with
         | Ok (b1, _) ->
             "OK " ^ hex_of_nlist b1 ^ " | " ^
             (match op_dec c mode b1 with
              | Ok m -> "OK " ^ dump_msg c m ^ " | " ^ string_of_res (fun (b, _) -> hex_of_nlist b) (op_enc c m)
              | r -> string_of_res (fun _ -> "") r)
         | r -> string_of_res (fun _ -> "") r)
    | _ -> "BAD-CASE unknown op"
  with
  | Bad_case s -> "BAD-CASE " ^ s
  | Model_stop s -> s

(* schema table from argv; [with_schema case f] strips an "@name " prefix and runs f on that ctx *)
let ctx_table : (string * ctx Lazy.t) list Lazy.t = lazy (
  List.filter_map (fun a ->
    match String.index_opt a '=' with
    | Some i -> let name = String.sub a 0 i and path = String.sub a (i + 1) (String.length a - i - 1) in
                Some (name, lazy (load_ctx path render_default))
    | None -> None) (List.tl (Array.to_list Sys.argv)))
let with_schema (case : string) (f : ctx -> string -> 'a) : 'a =
  let tbl = Lazy.force ctx_table in
  if String.length case > 0 && case.[0] = '@' then begin
    let sp = (try String.index case ' ' with Not_found -> String.length case) in
    let name = String.sub case 1 (sp - 1) in
    let rest = if sp < String.length case then String.sub case (sp + 1) (String.length case - sp - 1) else "" in
    f (Lazy.force (List.assoc name tbl)) rest
  end else f (Lazy.force (snd (List.hd tbl))) case
(* ============================== END OF CODEC COMMON BLOCK ============================== *)

(* ---------------------------------------------------------------------------------------
   C05 / C06 OBSERVATION BLOCK: parser of the harness' object dump into the observation type
   of coq/C05/Spec_C05.v (same text for c05_driver.ml and c06_driver.ml). *)
exception Bad_dump of string
let parse_node (s : string) (i : int ref) : onode =
  let len = String.length s in
  let peek () = if !i < len then s.[!i] else '\000' in
  let expect (t : string) =
    let k = String.length t in
    if !i + k <= len && String.sub s !i k = t then i := !i + k
    else raise (Bad_dump (Printf.sprintf "expected %s at %d" t !i)) in
  let skip_to (c : char) = while !i < len && s.[!i] <> c do incr i done in
  let number () =
    let j = !i in
    while (match peek () with '0'..'9' -> true | _ -> false) do incr i done;
    if !i = j then raise (Bad_dump (Printf.sprintf "number expected at %d" j));
    int_of_string (String.sub s j (!i - j)) in
  let hex () =
    if peek () = '-' then (incr i; [])
    else begin
      let j = !i in
      while (match peek () with '0'..'9' | 'a'..'f' | 'A'..'F' -> true | _ -> false) do incr i done;
      nlist_of_hex (String.sub s j (!i - j))
    end in
  let rec node () : onode =
    expect "{p:"; skip_to ';'; expect ";f:";
    let fields = ref [] in
    while peek () <> ';' do
      let f = number () in
      expect "=";
      let v = hex () in
      fields := (n_of_int f, v) :: !fields;
      if peek () = ',' then incr i
    done;
    expect ";g:";
    let groups = ref [] in
    while peek () <> ';' do
      let f = number () in
      expect "[";
      let els = ref [] in
      while peek () = '{' do els := node () :: !els done;
      expect "]";
      groups := (n_of_int f, List.rev !els) :: !groups;
      if peek () = ',' then incr i
    done;
    expect ";u:";
    let u = hex () in
    expect ";pr:"; skip_to ';'; expect ";su:"; skip_to '}'; expect "}";
    ON (List.rev !fields, List.rev !groups, u) in
  node ()

let find_sub_str (s : string) (t : string) : int =
  let n = String.length s and k = String.length t in
  let rec go i = if i + k > n then raise (Bad_dump ("missing " ^ t)) else if String.sub s i k = t then i else go (i + 1) in
  go 0

(* "OK T=<mt> H{..} B{..} T{..}" -> Some observation; anything else -> None *)
let obs_of_dump (r : string) : omsg option =
  if String.length r < 3 || String.sub r 0 3 <> "OK " then None
  else
    try
      let i = ref (find_sub_str r " H{" + 2) in
      let h = parse_node r i in
      if String.sub r !i 2 <> " B" then raise (Bad_dump "B expected");
      i := !i + 2;
      let b = parse_node r i in
      if String.sub r !i 2 <> " T" then raise (Bad_dump "T expected");
      i := !i + 2;
      let t = parse_node r i in
      Some { o_hdr = h; o_body = b; o_trl = t }
    with Bad_dump _ | Invalid_argument _ -> None

let stages (r : string) : string list =
  List.filter (fun x -> x <> "") (List.map String.trim (split_on '|' r))
let bytes_of_ok (r : string) : n list option =
  match words r with ["OK"; h] -> Some (nlist_of_hex h) | _ -> None
let toks_of (s : string) : n list list =
  if s = "-" then [] else List.map nlist_of_hex (split_on ',' s)
(* ============================ END OF OBSERVATION BLOCK ================================= *)

(* C06 driver.
   P <msgspec>            impl = result of "RT s <msgspec>" (build, encode, decode the bytes, dump, re-encode)
   W <msgspec> <wire hex> impl = result of "DEC s <wire hex>" (the wire image was built by the suite:
                          contents the builder API cannot carry -- NUL -- and Length values that
                          differ from the real length)
   expected tree = the msgspec itself (values as written: raw bytes); oracle = c06_ok with the
   Length/data pairs computed from the loaded metadata (pairs_of_ctx). *)
let spec_tree (spec : string) : omsg =
  let parts = Array.of_list (split_on ';' spec) in
  if Array.length parts <> 4 then raise (Bad_case "spec: 4 parts expected");
  let part (s : string) : onode =
    let i = ref 0 in
    let len = String.length s in
    let peek () = if !i < len then s.[!i] else '\000' in
    let number () =
      let j = !i in
      while (match peek () with '0'..'9' -> true | _ -> false) do incr i done;
      if !i = j then raise (Bad_case "spec: number expected");
      int_of_string (String.sub s j (!i - j)) in
    let hexval () =
      if peek () = '-' then (incr i; [])
      else begin
        let j = !i in
        while (match peek () with '0'..'9' | 'a'..'f' | 'A'..'F' -> true | _ -> false) do incr i done;
        nlist_of_hex (String.sub s j (!i - j))
      end in
    let rec fill () : onode =
      let fields = ref [] and groups = ref [] in
      while !i < len && peek () <> ')' do
        let fnum = number () in
        if peek () <> '=' then raise (Bad_case "spec: = expected");
        incr i;
        let v = hexval () in
        if not (List.mem_assoc fnum !fields) then fields := (fnum, v) :: !fields;
        if peek () = '[' then begin
          incr i;
          let els = ref [] in
          while peek () = '(' do
            incr i;
            let e = fill () in
            if peek () <> ')' then raise (Bad_case "spec: ) expected");
            incr i;
            els := e :: !els
          done;
          if peek () <> ']' then raise (Bad_case "spec: ] expected");
          incr i;
          groups := (fnum, List.rev !els) :: !groups
        end;
        if peek () = ',' then incr i
      done;
      let srt l = List.sort (fun (a, _) (b, _) -> compare a b) l in
      ON (List.map (fun (f, v) -> (n_of_int f, v)) (srt !fields),
          List.map (fun (f, e) -> (n_of_int f, e)) (srt !groups), []) in
    fill () in
  { o_hdr = part parts.(1); o_body = part parts.(2); o_trl = part parts.(3) }

let pairs_tbl : (ctx * (n * n) list) list ref = ref []
let pairs_for (c : ctx) : (n * n) list =
  try List.assq c !pairs_tbl
  with Not_found -> let p = pairs_of_ctx c in pairs_tbl := (c, p) :: !pairs_tbl; p

let () = run_protocol (fun case0 impl -> with_schema case0 (fun c case ->
  match words case with
  | ["P"; spec] ->
      let expected = spec_tree spec in
      let m = run_op c ("RT s " ^ spec) in
      let oracle r =
        c06_ok (pairs_for c) expected
          (match stages r with _ :: d :: _ -> obs_of_dump d | _ -> None) in
      (m, oracle impl, oracle m)
  | ["W"; spec; hx] ->
      let expected = spec_tree spec in
      let m = run_op c ("DEC s " ^ hx) in
      let oracle r = c06_ok (pairs_for c) expected (obs_of_dump r) in
      (m, oracle impl, oracle m)
  | [("C" | "CT"); iters; lists] ->
      (* concurrent class: the sequential model says that a thread's decode result does not depend
         on what other threads do: 0 mismatches *)
      let k = List.length (split_on ';' lists) in
      let m = Printf.sprintf "OK threads=%d iters=%s mismatches=0" k iters in
      (m, impl = m, true)
  | _ -> ("BAD-CASE", false, false)))
