(* C26 driver.  case: "<M|F> <op>;<op>;..." (see harness/h_c26.cpp); impl result: op results joined by ';' *)
let nl_hex = hex_of_nlist
let parse_op (s : string) : op =
  match words s with
  | ["P"; q; hx] -> OPut (n_of_int (int_of_string q), nlist_of_hex hx)
  | ["G"; q] -> OGet (n_of_int (int_of_string q))
  | ["C"; a; b] -> OCtlPut (n_of_int (int_of_string a), n_of_int (int_of_string b))
  | ["c"] -> OCtlGet
  | ["L"] -> OLast
  | ["N"; r; l] -> ONearest (n_of_int (int_of_string r), n_of_int (int_of_string l))
  | ["R"; f; t; k] -> ORange (n_of_int (int_of_string f), n_of_int (int_of_string t), n_of_int (int_of_string k))
  | ["O"] -> OReopen
  | _ -> failwith ("bad op: " ^ s)
let parse_ops (s : string) : op list =
  List.map parse_op (List.filter (fun x -> String.trim x <> "") (split_on ';' s))

let string_of_call ((kb, f) : (n * n list) * bool) : string =
  let (k, b) = kb in
  Printf.sprintf "%d:%s:%s" (int_of_n k) (nl_hex b) (b01 f)
let string_of_out (o : out) : string =
  match o with
  | RBool b -> b01 b
  | RBytes None -> "0"
  | RBytes (Some b) -> "1:" ^ nl_hex b
  | RCtl None -> "0"
  | RCtl (Some (s, t)) -> Printf.sprintf "1:%d,%d" (int_of_n s) (int_of_n t)
  | RCtlUnspec -> "1:?"
  | RNum n -> string_of_int (int_of_n n)
  | RRange (n, calls) ->
    Printf.sprintf "%d[%s]" (int_of_n n) (String.concat "," (List.map string_of_call calls))
let string_of_outs (r : out list option) : string =
  match r with
  | None -> "OOB"
  | Some [] -> "-"
  | Some l -> String.concat ";" (List.map string_of_out l)

let after_colon s = let i = String.index s ':' in String.sub s (i + 1) (String.length s - i - 1)
let parse_call (s : string) : (n * n list) * bool =
  match split_on ':' s with
  | [k; hx; f] -> ((n_of_int (int_of_string k), nlist_of_hex hx), f = "1")
  | _ -> failwith "call"
(* the implementation's result for one operation, read according to the operation's type *)
let parse_out (o : op) (s : string) : out =
  match o with
  | OPut _ | OCtlPut _ | OReopen -> (match s with "1" -> RBool true | "0" -> RBool false | _ -> failwith "bool")
  | OGet _ -> if s = "0" then RBytes None else if String.length s >= 2 && String.sub s 0 2 = "1:" then RBytes (Some (nlist_of_hex (after_colon s))) else failwith "bytes"
  | OCtlGet ->
    if s = "0" then RCtl None else if s = "1:?" then RCtlUnspec
    else (match split_on ',' (after_colon s) with
          | [a; b] -> RCtl (Some (n_of_int (int_of_string a), n_of_int (int_of_string b)))
          | _ -> failwith "ctl")
  | OLast | ONearest _ -> RNum (n_of_int (int_of_string s))
  | ORange _ ->
    let i = String.index s '[' in
    let n = int_of_string (String.sub s 0 i) in
    let body = String.sub s (i + 1) (String.length s - i - 2) in
    let calls = if body = "" then [] else List.map parse_call (split_on ',' body) in
    RRange (n_of_int n, calls)
let parse_outs (ops : op list) (s : string) : out list option =
  try
    let parts = if s = "-" then [] else split_on ';' s in
    if List.length parts <> List.length ops then None
    else Some (List.map2 parse_out ops parts)
  with _ -> None

let () = run_protocol (fun case impl ->
  let kind = case.[0] in
  let ops = parse_ops (String.sub case 2 (String.length case - 2)) in
  let r = if kind = 'M' then mem_outputs ops else file_outputs ops in
  (* the file persister enforces the documented maximum record length (oracle on clip ops) *)
  let ok = if kind = 'M' then c26_ok ops else c26_ok_file ops in
  (string_of_outs r, ok (parse_outs ops impl), ok r))
