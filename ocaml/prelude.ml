(* Shared glue between the extracted models (module Model) and the line protocol.
   Conversions between OCaml ints/strings and Coq's extracted positive/N/Z/nat/list. *)
open Model

let rec pos_of_int (i : int) : positive =
  if i <= 1 then XH else if i land 1 = 0 then XO (pos_of_int (i lsr 1)) else XI (pos_of_int (i lsr 1))
let rec int_of_pos (p : positive) : int =
  match p with XH -> 1 | XO q -> 2 * int_of_pos q | XI q -> 2 * int_of_pos q + 1
let n_of_int (i : int) : n = if i <= 0 then N0 else Npos (pos_of_int i)
let int_of_n (x : n) : int = match x with N0 -> 0 | Npos p -> int_of_pos p
let z_of_int (i : int) : z = if i = 0 then Z0 else if i > 0 then Zpos (pos_of_int i) else Zneg (pos_of_int (- i))
let int_of_z (x : z) : int = match x with Z0 -> 0 | Zpos p -> int_of_pos p | Zneg p -> - (int_of_pos p)
let rec nat_of_int (i : int) : nat = if i <= 0 then O else S (nat_of_int (i - 1))
let rec int_of_nat (k : nat) : int = match k with O -> 0 | S m -> 1 + int_of_nat m

(* arbitrary precision decimal <-> Z, for values beyond 62 bits *)
let z_of_string (s : string) : z =
  let neg = String.length s > 0 && s.[0] = '-' in
  let start = if neg || (String.length s > 0 && s.[0] = '+') then 1 else 0 in
  let ten = z_of_int 10 in
  let acc = ref Z0 in
  for i = start to String.length s - 1 do
    acc := Z.add (Z.mul !acc ten) (z_of_int (Char.code s.[i] - 48))
  done;
  if neg then Z.opp !acc else !acc
let string_of_z (x : z) : string =
  let ten = z_of_int 10 in
  let rec go (v : z) (acc : string) =
    match v with
    | Z0 -> if acc = "" then "0" else acc
    | _ -> let q = Z.div v ten and r = Z.modulo v ten in go q (string_of_int (int_of_z r) ^ acc) in
  match x with
  | Zneg p -> "-" ^ go (Zpos p) ""
  | _ -> go x ""

let hexval c = match c with
  | '0'..'9' -> Char.code c - 48 | 'a'..'f' -> Char.code c - 87 | 'A'..'F' -> Char.code c - 55
  | _ -> failwith "hex"
let bytes_of_hex (s : string) : int list =
  let s = if s = "-" then "" else s in
  let n = String.length s / 2 in
  List.init n (fun i -> hexval s.[2*i] * 16 + hexval s.[2*i+1])
let hex_of_bytes (l : int list) : string =
  if l = [] then "-" else String.concat "" (List.map (Printf.sprintf "%02x") l)
let zlist_of_hex s = List.map z_of_int (bytes_of_hex s)
let nlist_of_hex s = List.map n_of_int (bytes_of_hex s)
let hex_of_zlist l = hex_of_bytes (List.map int_of_z l)
let hex_of_nlist l = hex_of_bytes (List.map int_of_n l)
let string_of_bytes (l : int list) : string = String.init (List.length l) (fun i -> Char.chr (List.nth l i land 255))
let bytes_of_string (s : string) : int list = List.init (String.length s) (fun i -> Char.code s.[i])

let split_on c s = String.split_on_char c s
let words s = List.filter (fun w -> w <> "") (split_on ' ' s)
let b01 b = if b then "1" else "0"

(* main loop: each input line is "<case>\t<impl result>"; [f case impl] returns
   (model result, oracle on impl, oracle on model) *)
let run_protocol (f : string -> string -> string * bool * bool) : unit =
  (try
    while true do
      let line = input_line stdin in
      let case, impl =
        match String.index_opt line '\t' with
        | Some i -> String.sub line 0 i, String.sub line (i+1) (String.length line - i - 1)
        | None -> line, "" in
      let (m, oi, om) =
        (try f case impl with e -> ("MODEL-ERROR " ^ Printexc.to_string e, false, false)) in
      print_string m; print_char '\t'; print_string (b01 oi); print_char '\t'; print_string (b01 om);
      print_newline ()
    done
  with End_of_file -> ())
