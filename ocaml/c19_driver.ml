(* C19 driver.  argv[1] = metadata dump of the harness (h_sess --meta); argv[2] = file holding the
   __FILE__:__LINE__ text of the InvalidMessage thrown by Session::process (obtained from the real
   code by the suite's probe run); argv[3], argv[4]: see the end of the file.
   case: a history line; impl result: the harness' trace line.
   model result = run_line19 schema fl_process case; oracle = c19_ok on the parsed trace of either side. *)
let nlist_of_string (s : string) : n list =
  let r = ref [] in
  for i = String.length s - 1 downto 0 do r := n_of_int (Char.code s.[i]) :: !r done; !r
let string_of_nlist (l : n list) : string =
  let b = Buffer.create 1024 in
  List.iter (fun x -> Buffer.add_char b (Char.chr ((int_of_n x) land 255))) l; Buffer.contents b

(* tags of type Length (FieldTrait::ft_Length = 2) anywhere in the schema: the fields that announce a data field *)
let lens : n list ref = ref []

let load_schema (path : string) : schema =
  let ic = open_in path in
  let begin_s = ref "" and hdr = ref [] and hdrm = ref [] and msgs = ref [] and admin = Hashtbl.create 64
  and fe = ref "" and names = ref [] in
  let parse_mand ws = List.concat (List.map (fun w -> match split_on ':' w with
      | t :: _ :: _ :: "1" :: _ -> [n_of_int (int_of_string t)] | _ -> []) ws) in
  let parse_traits ws = List.map (fun w -> match split_on ':' w with
      | t :: p :: _ -> (n_of_int (int_of_string t), n_of_int (int_of_string p)) | _ -> failwith "meta") ws in
  (try while true do
    let line = input_line ic in
    match words line with
    | "V" :: v :: _ -> begin_s := v
    | "A" :: t :: a :: _ -> Hashtbl.replace admin t (a = "1")
    | "P" :: part :: ws when (List.iter (fun w -> match split_on ':' w with
          | t :: _ :: "2" :: _ -> let t = n_of_int (int_of_string t) in if not (List.mem t !lens) then lens := t :: !lens
          | _ -> ()) ws; false) -> ()
    | "P" :: "header" :: ws -> hdr := parse_traits ws; hdrm := parse_mand ws
    | "F" :: t :: name :: _ -> names := (n_of_int (int_of_string t), nlist_of_string name) :: !names
    | "P" :: "trailer" :: _ -> ()
    | "P" :: t :: ws ->
      msgs := { d_type = nlist_of_string t; d_admin = (try Hashtbl.find admin t with Not_found -> false);
                d_pos = parse_traits ws; d_mand = parse_mand ws } :: !msgs
    | "E" :: "factory_empty" :: h :: _ -> fe := string_of_bytes (bytes_of_hex h)
    | _ -> ()
  done with End_of_file -> close_in ic);
  { sc_begin = nlist_of_string !begin_s; sc_hdr = !hdr; sc_hdr_mand = !hdrm; sc_names = !names; sc_msgs = List.rev !msgs;
    sc_routed = List.map nlist_of_string ["D"; "8"; "F"];
    sc_factory_empty = nlist_of_string !fe }

let read_file (path : string) : string =
  let ic = open_in_bin path in
  let n = in_channel_length ic in
  let s = really_input_string ic n in
  close_in ic; String.trim s

(* ---- the Codec group's metadata dump (h_codec --meta) -> ctx: `load_ctx` of the CODEC COMMON BLOCK
        (ocaml/c02_driver.ml), copied verbatim ------------------------------------------------------------- *)
let bit v k = (v lsr k) land 1 = 1
let mk_trait fnum ftype pos comp flags : trait =
  { t_fnum = n_of_int fnum; t_ftype = n_of_int ftype; t_pos = n_of_int pos; t_comp = n_of_int comp;
    t_mand = bit flags 0; t_present = bit flags 1; t_haspos = bit flags 2; t_group = bit flags 3;
    t_iscomp = bit flags 4; t_suppress = bit flags 5; t_auto = bit flags 6 }

let load_ctx (path : string) (render : n -> n list -> n list) : ctx =
  let ic = open_in path in
  let fields = ref [] and msgs = ref [] and begin_s = ref [] in
  let traits : (string, trait list) Hashtbl.t = Hashtbl.create 64 in
  let groups : (string, (int * string * bool) list) Hashtbl.t = Hashtbl.create 64 in
  let inits : (string, (n * (n * n list)) list) Hashtbl.t = Hashtbl.create 4 in
  let add tbl k v = Hashtbl.replace tbl k ((try Hashtbl.find tbl k with Not_found -> []) @ [v]) in
  (try
    while true do
      let line = input_line ic in
      match words line with
      | ["V"; _; bs; _] -> begin_s := nlist_of_hex bs
      | ["F"; fnum; ftype; _] -> fields := (n_of_int (int_of_string fnum), n_of_int (int_of_string ftype)) :: !fields
      | ["M"; mt; _; admin] -> msgs := (mt, admin = "1") :: !msgs
      | ["T"; owner; fnum; ftype; pos; comp; flags] ->
          add traits owner (mk_trait (int_of_string fnum) (int_of_string ftype) (int_of_string pos)
                              (int_of_string comp) (int_of_string flags))
      | ["G"; owner; fnum; "->"; sub; deep] -> add groups owner (int_of_string fnum, sub, deep = "1")
      | ["I"; owner; pos; fnum; v] ->
          add inits owner (n_of_int (int_of_string pos), (n_of_int (int_of_string fnum), nlist_of_hex v))
      | _ -> ()
    done
  with End_of_file -> close_in ic);
  let rec gm owner : gmeta =
    let ts = (try Hashtbl.find traits owner with Not_found -> []) in
    let gs = (try Hashtbl.find groups owner with Not_found -> []) in
    let deep = List.for_all (fun (_, _, d) -> d) gs in
    if not deep && List.exists (fun (_, _, d) -> d) gs then failwith ("mixed deep flags under " ^ owner);
    GM (ts, List.map (fun (f, sub, _) -> (n_of_int f, gm sub)) gs, deep) in
  let init owner = (try Hashtbl.find inits owner with Not_found -> []) in
  { c_fields = List.rev !fields;
    c_msgs = List.rev_map (fun (mt, admin) -> { md_type = nlist_of_string mt; md_admin = admin; md_meta = gm mt }) !msgs;
    c_header = gm "header"; c_trailer = gm "trailer";
    c_hdr_init = init "header"; c_trl_init = init "trailer";
    c_begin = !begin_s; c_render = render }

(* argv: 1 = h_sess --meta, 2 = fl_process file, 3 = h_codec --meta (utest), 4 = file with the FILE_LINE of the
   "unknown message type" throw of Message::factory.  With C19_DECODER=simple the stand-in decoder
   Sess.SimpleCodec is used instead of the Codec model (debugging aid). *)
let () =
  let sc = load_schema Sys.argv.(1) in
  let fl = nlist_of_string (read_file Sys.argv.(2)) in
  let simple = (try Sys.getenv "C19_DECODER" = "simple" with Not_found -> false) || Array.length Sys.argv < 5 in
  let run =
    if simple then (fun c -> run_line19 sc fl c)
    else begin
      let ctx = load_ctx Sys.argv.(3) render_default in
      (* the FILE_LINE of the hlen = 0 throw: the tail of the factory_empty text *)
      let fe = string_of_nlist sc.sc_factory_empty in
      let key = " at: " in
      let fl_hlen =
        (try
           let rec find i = if i + String.length key > String.length fe then raise Not_found
                            else if String.sub fe i (String.length key) = key then i else find (i + 1) in
           let i = find 0 in String.sub fe (i + String.length key) (String.length fe - i - String.length key)
         with Not_found -> "") in
      let fls = { fl_hlen = nlist_of_string fl_hlen; fl_type = nlist_of_string (read_file Sys.argv.(4)); fl_trailer = [] } in
      (fun c -> run_line19c sc ctx fls fl c)
    end in
  run_protocol (fun case impl ->
    let c = nlist_of_string case in
    let m = run c in
    (string_of_nlist m, c19_ok_line sc !lens c (nlist_of_string impl), c19_ok_line sc !lens c m))
